package main

import (
	"fmt"
	"os"
	"sort"
	"sync"
	"syscall"
	"time"

	"github.com/free5gc/go-upf/internal/verif/vh"
)

func init() {
	checks["c01"] = runC01
	checks["c04"] = func(r *vh.Result) { runHist(r, "C04") }
	checks["c05"] = func(r *vh.Result) { runHist(r, "C05") }
	checks["c08"] = func(r *vh.Result) { runHist(r, "C08") }
	checks["c11"] = func(r *vh.Result) { runHist(r, "C11") }
	checks["c12"] = func(r *vh.Result) { runHist(r, "C12") }
}

var profiles = map[string]vh.GenProfile{
	"C01": {MinOps: 5, MaxOps: 14, MaxNodes: 2, MaxSess: 3, Negative: 2, Reports: 2, RuleChurn: 8, Reassoc: 2, Takeover: true, LateAnswers: true},
	"C04": {MinOps: 10, MaxOps: 40, MaxNodes: 3, MaxSess: 12, Negative: 8, Reports: 3, RuleChurn: 3, Reassoc: 3, SeidClasses: true, Takeover: true, TxTimeouts: true, LateAnswers: true, Churn: true},
	"C05": {MinOps: 10, MaxOps: 35, MaxNodes: 3, MaxSess: 8, Negative: 3, Reports: 4, RuleChurn: 8, Reassoc: 3, ExtraSock: true, Takeover: true, Dups: 2, DLDR: true, TxTimeouts: true, LateAnswers: true, Ticks: true},
	"C08": {MinOps: 8, MaxOps: 30, MaxNodes: 3, MaxSess: 6, Negative: 10, Reports: 2, RuleChurn: 4, Reassoc: 2, ExtraSock: true, Takeover: true, Dups: 5, Churn: true},
	"C11": {MinOps: 10, MaxOps: 40, MaxNodes: 2, MaxSess: 4, Negative: 1, Reports: 10, RuleChurn: 8, Reassoc: 1, NoDupCreate: true, URRHeavy: true, TxTimeouts: true, Ticks: true},
	"C12": {MinOps: 8, MaxOps: 30, MaxNodes: 1, MaxSess: 1, Negative: 0, Reports: 1, RuleChurn: 14, Reassoc: 0, NoDupCreate: true, URRHeavy: true, OneSession: true},
}

var rules = map[string]string{
	"C01": "seeded random histories (association, establishment, modification with colliding/repeated/never-created ids, deletion, reports answered with SEID 0, re-association) " +
		"executed fault-free and then once per (driver-call position x {fail-not-applied, fail-applied}); an execution is non-trivial when at least one data-plane call " +
		"was observed; distinct = distinct (history signature, fault position, mode)",
	"C04": "seeded random histories over up to 3 SMFs / 12 sessions with lookups by every SEID class; non-trivial = at least one session established and one " +
		"lookup by a non-live SEID or one SEID re-issue observed; distinct = distinct abstract operation/SEID-class sequences",
	"C05": "seeded random histories with colliding rule ids and CP-SEIDs across peers; non-trivial = at least two live sessions existed while a session-level request " +
		"was processed; distinct = distinct abstract operation sequences",
	"C08": "seeded random histories weighted to negative paths; non-trivial = at least one rejected or unanswered request and one accepted establishment; " +
		"distinct = distinct abstract operation sequences",
	"C11": "seeded random URR-heavy histories (reports, query/update/remove URR, PDR removal, deletion); non-trivial = at least 3 UR-SEQN values observed; " +
		"distinct = distinct abstract operation sequences",
	"C12": "seeded random single-session histories of Create/Update/Remove PDR with URR lists, Create/Remove/Query URR and deletion; non-trivial = at least one " +
		"termination or immediate report expected or observed; distinct = distinct abstract operation sequences",
}

var commonAssume = []string{
	"model data plane semantics: create of an existing rule fails and changes nothing; update/remove/query of a missing rule fail; one report per URR query/removal",
	"state snapshots are read through build-tagged hooks while the event loop is idle (heartbeat barrier)",
	"loopback UDP between one sender and one receiver socket is ordered; drops are read from /proc/net/udp",
}

func histSig(h *vh.History, extra ...interface{}) string {
	return vh.Sig(append([]interface{}{vh.J(h.Ops)}, extra...)...)
}

func reportFindings(res *vh.Result, caseIdx int, prop string, h *vh.History, faults map[int]string, an *vh.Analyzer, tr *vh.Trace) int {
	n := 0
	other := 0
	seen := map[string]bool{}
	for _, f := range an.F {
		if f.Prop != prop {
			other++
			if os.Getenv("VERIF_OTHER") != "" {
				fmt.Fprintf(os.Stderr, "OTHER %s case=%d %s\n", f.Sig, caseIdx, f.Desc)
				if os.Getenv("VERIF_OTHER_DUMP") != "" {
					fmt.Fprintf(os.Stderr, "%s\n", vh.J(map[string]interface{}{"history": h, "trace": traceDigest(tr, f.Step)}))
				}
			}
			continue
		}
		if seen[f.Sig] {
			continue
		}
		seen[f.Sig] = true
		n++
		res.Violate(caseIdx, f.Sig, f.Desc, map[string]interface{}{
			"history": h, "faults": faults, "step": f.Step, "trace": traceDigest(tr, f.Step),
		})
	}
	res.Count("findings_other_properties", int64(other))
	return n
}

// traceDigest renders the steps up to (and including) the failing one.
func traceDigest(tr *vh.Trace, upto int) []map[string]interface{} {
	var out []map[string]interface{}
	for _, st := range tr.Steps {
		if st.I > upto || st.I < upto-6 {
			continue
		}
		m := map[string]interface{}{"i": st.I, "op": st.Op, "seid": fmt.Sprintf("%#x", st.UP), "calls": st.Calls}
		if st.Rsp != nil && st.Rsp.M != nil {
			m["rsp"] = fmt.Sprintf("type=%d seid=%#x seq=%d cause=%d ies=%v", st.Rsp.M.Type, st.Rsp.M.SEID, st.Rsp.M.Seq, st.Rsp.M.CauseVal(), st.Rsp.M.IEs)
		} else {
			m["rsp"] = nil
		}
		var reps []string
		for _, d := range st.Reports {
			if d.M != nil {
				reps = append(reps, fmt.Sprintf("seid=%#x seq=%d ies=%v", d.M.SEID, d.M.Seq, d.M.IEs))
			}
		}
		if len(reps) > 0 {
			m["report_requests"] = reps
		}
		var dp []string
		for _, k := range vh.SortedKeys(st.DPPost) {
			dp = append(dp, k.String())
		}
		m["dataplane_after"] = dp
		out = append(out, m)
	}
	return out
}

func faultCrash(res *vh.Result, caseIdx int, prop string, h *vh.History, faults map[int]string, tr *vh.Trace) bool {
	if len(tr.Fatal) > 0 {
		res.Violate(caseIdx, prop+":"+vh.FaultSig(tr.Fatal[0]), "the control plane hit a fatal error while executing the history",
			map[string]interface{}{"history": h, "faults": faults, "fatal": tr.Fatal[0], "abort": tr.Abort})
		return true
	}
	if tr.Abort != "" {
		res.Inconc(fmt.Sprintf("case %d: %s", caseIdx, tr.Abort))
		return true
	}
	return false
}

func runHist(res *vh.Result, prop string) {
	p := profiles[prop]
	res.Rule = rules[prop]
	res.Assumptions = commonAssume
	n := map[string][2]int{
		"C04": {1500, 40000}, "C05": {1200, 30000}, "C08": {3000, 120000}, "C11": {1500, 40000}, "C12": {3000, 100000},
	}[prop]
	total := vh.Tiered(n[0], n[1])
	rnModel := &vh.Runner{ExtraSock: p.ExtraSock}
	rnReal := newFullRunner(p.ExtraSock)
	res.Assumptions = append([]string{"every sixth history (C04 C05 C11 C12) runs on the real gtp5g driver over the simulated kernel: the rule table compared with the model is then the kernel's"}, commonAssume...)
	nconc := 0
	if prop == "C11" {
		nconc = vh.Tiered(40, 1500) // concurrent histories checked with porcupine
		res.Rule += "; plus concurrent histories (4 query clients, 2 notification producers, 1 multicast producer on the full stack) whose recorded call/return/value " +
			"triples are checked for linearizability against a per-URR fetch-and-increment model (porcupine)"
	}
	if prop == "C08" {
		nconc = vh.Tiered(16, 600) // requests that go unanswered although they carry rule IEs (c08_unanswered.go)
		res.Rule += "; plus Session Modification Requests whose Node ID IE cannot be decoded, placed in front of, between and behind rule IEs: rejected or unanswered => " +
			"no data-plane call and unchanged session, node and data-plane state"
	}
	res.Cases(total+nconc, func(i int, rng *vh.Rng) {
		if i >= total {
			if prop == "C08" {
				c08Unanswered(res, i, rng)
				return
			}
			c11Concurrent(res, i, rng)
			return
		}
		h := vh.Generate(rng, p)
		if (prop == "C05" || prop == "C04") && i%2 == 1 {
			vh.WidenIDs(h)
			res.Count("histories_with_wide_rule_ids", 1)
		}
		rn := rnModel
		if prop != "C08" && i%6 == 5 && !(prop == "C11" && i%4 == 3) {
			rn = rnReal
			res.Count("histories_on_real_driver", 1)
		}
		rn.NoRemoveReport = false
		if prop == "C11" {
			// a quarter of the histories run on a data plane that removes URRs without a final report (as
			// forwarder.Empty does): the session then keeps the URR's record until the URR is re-created
			rn.NoRemoveReport = i%4 == 3
		}
		if p.TxTimeouts {
			rn.MaxRetrans = uint8(i % 3)
		}
		tr := rn.Run(h, nil)
		if faultCrash(res, i, prop, h, nil, tr) {
			res.Eval("")
			return
		}
		an := vh.Analyze(tr)
		reportFindings(res, i, prop, h, nil, an, tr)
		nt := nontrivial(prop, tr, an)
		sig := ""
		if nt {
			sig = vh.Sig(abstract(tr))
		}
		res.Eval(sig)
		// the same history again with data-plane faults: removals the data plane refuses (the rule stays
		// installed; C04 C05 C11 C12) and, for C04/C05, failing creates/updates/queries as in C01
		rems := tr.RemoveCalls()
		fcalls := tr.FaultableCalls()
		nplans := vh.Tiered(2, 3)
		if prop == "C08" {
			nplans = 0
		}
		for k := 0; k < nplans; k++ {
			plan := map[int]string{}
			if len(rems) > 0 {
				for j := 0; j < 1+rng.Intn(2); j++ {
					plan[vh.RemBase+rng.Intn(len(rems))] = "na"
				}
			}
			if (prop == "C04" || prop == "C05") && len(fcalls) > 0 && k > 0 {
				plan[rng.Intn(len(fcalls))] = []string{"na", "ap"}[rng.Intn(2)]
			}
			if (prop == "C11" || prop == "C12") && k > 0 {
				// a usage query (Query URR, or the final query when a URR loses its last PDR) that fails or returns nothing
				var qs []int
				for _, c := range fcalls {
					if c.Op == "Query" {
						qs = append(qs, c.FIdx)
					}
				}
				if len(qs) > 0 {
					plan[qs[rng.Intn(len(qs))]] = "na"
				}
			}
			if len(plan) == 0 {
				break
			}
			ft := rn.Run(h, plan)
			if faultCrash(res, i, prop, h, plan, ft) {
				continue
			}
			fa := vh.Analyze(ft)
			reportFindings(res, i, prop, h, plan, fa, ft)
			res.Eval(vh.Sig(abstract(ft), vh.J(plan)))
			res.Count("fault_plans", 1)
			refused := 0
			for _, st := range ft.Steps {
				for _, c := range st.Calls {
					if c.Op == "Remove" && c.Fault == "na" {
						refused++
					}
				}
			}
			res.Count("refused_removals", int64(refused))
		}
		calls, dgrams := 0, 0
		for _, st := range tr.Steps {
			calls += len(st.Calls)
			if st.Rsp != nil {
				dgrams++
			}
			dgrams += len(st.Reports)
		}
		res.Count("driver_calls", int64(calls))
		res.Count("datagrams_from_upf", int64(dgrams))
		res.Count("steps", int64(len(tr.Steps)))
		res.Count("negative_responses", int64(an.NegRsp))
		res.Count("sessions_established", int64(an.Accepted))
		res.Count("session_teardowns", int64(an.Teardowns))
		res.Count("usage_report_ies", int64(an.URepIEs))
		res.Count("termination_reports", int64(an.TermReports))
		res.Count("immediate_reports", int64(an.ImmReports))
		res.Count("retransmissions_checked", int64(an.Dups))
		res.Count("report_requests_given_up_after_all_retries(steps)", int64(an.TxTimeouts))
		res.Count("report_request_retransmissions_seen", int64(an.Retrans))
		res.Count("late_answers_to_report_requests", int64(an.LateAnswers))
		res.Count("periodic_ticks_on_the_real_driver", int64(an.Ticks))
		res.Count("periodic_reports_from_ticks", int64(an.PeriodicReports))
		if i < 2 {
			res.Sample(map[string]interface{}{"history": h.Summary(), "ops": h.Ops})
		}
	}, nil)
}

// abstract renders a trace as the sequence the distinctness rule counts.
func abstract(tr *vh.Trace) string {
	s := ""
	for _, st := range tr.Steps {
		c := -1
		if st.Rsp != nil && st.Rsp.M != nil {
			c = st.Rsp.M.CauseVal()
		}
		s += fmt.Sprintf("%s/%d/%d/%d;", st.Op.K, c, len(st.Calls), len(st.Reports))
	}
	return s
}

func nontrivial(prop string, tr *vh.Trace, an *vh.Analyzer) bool {
	switch prop {
	case "C04":
		return an.Accepted > 0 && an.NegRsp > 0
	case "C05":
		for _, st := range tr.Steps {
			live := 0
			if st.Pre != nil {
				for _, s := range st.Pre.Slots {
					if s != nil {
						live++
					}
				}
			}
			if live >= 2 && (st.Op.K == "mod" || st.Op.K == "del" || st.Op.K == "urep" || st.Op.K == "assoc") {
				return true
			}
		}
		return false
	case "C08":
		neg := an.NegRsp > 0
		for _, st := range tr.Steps {
			if st.Sent && st.Rsp == nil && st.Op.K != "urep" {
				neg = true
			}
		}
		return neg && an.Accepted > 0
	case "C11":
		return an.URepIEs >= 3
	case "C12":
		return an.TermReports+an.ImmReports > 0
	}
	return true
}

// newFullRunner: histories on the real gtp5g driver over the simulated kernel (rule table = the kernel's)
func newFullRunner(extraSock bool) *vh.Runner {
	return &vh.Runner{ExtraSock: extraSock, NewDriver: func() *vh.DriverKit {
		wg := &sync.WaitGroup{}
		d, err := vh.NewSimDriver(vh.SimDriverOpts{WG: wg})
		if err != nil {
			panic("sim driver: " + err.Error())
		}
		table := func() map[vh.RuleKey]int {
			t := d.K.Table()
			delete(t, vh.RuleKey{Kind: "URR", SEID: vh.SentSEID, ID: uint64(vh.SentURR)}) // the barrier's own URR
			return t
		}
		refuse := func(kind string, on bool) {
			cmd := map[string]uint8{"PDR": vh.KCmdDelPDR, "FAR": vh.KCmdDelFAR, "QER": vh.KCmdDelQER, "URR": vh.KCmdDelURR, "BAR": vh.KCmdDelBAR}[kind]
			e := syscall.Errno(0)
			if on {
				e = syscall.ENOMEM
			}
			d.K.SetFailCmd(cmd, e)
		}
		return &vh.DriverKit{Driver: d.G, Table: table, Cleanup: func() { d.Close(); wg.Wait() }, Attach: d.HandleReport, Refuse: refuse,
			Tick: func(p time.Duration) bool {
				if !d.PerioBarrier() {
					return false
				}
				d.G.VerifPerio().VerifInjectTick(p)
				return d.PerioBarrier()
			}}
	}}
}

// ---- C01: fault enumeration ----

func runC01(res *vh.Result) {
	p := profiles["C01"]
	res.Rule = rules["C01"]
	res.Assumptions = append([]string{
		"every fifth history runs on the real gtp5g driver over the simulated kernel (rule table = the kernel's); the others on the model data plane",
		"fail-applied models a lost netlink acknowledgement (the rule is installed, an error is returned); removes never fail (outside the property's quantifier)",
		"an Update/Remove/Query is judged at request granularity: the id must have been requested when the request arrived or be created by it",
	}, commonAssume...)
	total := vh.Tiered(400, 6000)
	rnModel := &vh.Runner{}
	rnNoRep := &vh.Runner{NoRemoveReport: true}
	// every fifth history runs on the real gtp5g driver over the simulated kernel: the rule table that is
	// compared with the model is then the kernel's, and the faults hit the real driver's call sites
	rnFull := newFullRunner(false)
	res.Cases(total, func(i int, rng *vh.Rng) {
		h := vh.Generate(rng, p)
		if i%5 == 3 {
			// URR-centred histories for the report-less data plane: create / remove / re-create / query chains on few ids
			h = vh.Generate(rng, vh.GenProfile{MinOps: 12, MaxOps: 22, MaxNodes: 1, MaxSess: 2, Negative: 0, Reports: 2, RuleChurn: 14, Reassoc: 1, URRHeavy: true})
		}
		if i%2 == 1 {
			vh.WidenIDs(h) // rule ids over the whole range of each id (high bit set, maximum, ...)
			res.Count("histories_with_wide_rule_ids", 1)
		}
		rn := rnModel
		if i%5 == 4 {
			rn = rnFull
			res.Count("histories_on_real_driver", 1)
		} else if i%5 == 3 {
			rn = rnNoRep // URR removal without a final report: the session keeps the URR's record until re-creation
		}
		base := rn.Run(h, nil)
		if faultCrash(res, i, "C01", h, nil, base) {
			res.Eval("")
			return
		}
		an := vh.Analyze(base)
		reportFindings(res, i, "C01", h, nil, an, base)
		calls := base.FaultableCalls()
		hs := histSig(h)
		sig := ""
		if len(calls) > 0 {
			sig = vh.Sig(hs, "nofault")
		}
		res.Eval(sig)
		res.Count("histories", 1)
		res.Count("faultable_positions", int64(len(calls)))
		if i < 2 {
			res.Sample(map[string]interface{}{"history": h.Summary(), "faultable_calls": len(calls), "ops": h.Ops})
		}
		plans := []map[int]string{}
		if len(calls) <= 40 {
			for pos := range calls {
				plans = append(plans, map[int]string{pos: "na"}, map[int]string{pos: "ap"})
			}
		} else {
			for k := 0; k < 80; k++ {
				plans = append(plans, map[int]string{rng.Intn(len(calls)): []string{"na", "ap"}[rng.Intn(2)]})
			}
		}
		// seeded multi-fault plans
		nm := 4
		if vh.Thorough() {
			nm = 10
		}
		for k := 0; k < nm && len(calls) >= 2; k++ {
			pl := map[int]string{}
			for j := 0; j < rng.Range(2, 3); j++ {
				pl[rng.Intn(len(calls))] = []string{"na", "ap"}[rng.Intn(2)]
			}
			plans = append(plans, pl)
		}
		for _, pl := range plans {
			tr := rn.Run(h, pl)
			if faultCrash(res, i, "C01", h, pl, tr) {
				res.Eval("")
				continue
			}
			fa := vh.Analyze(tr)
			reportFindings(res, i, "C01", h, pl, fa, tr)
			keys := make([]int, 0, len(pl))
			for k := range pl {
				keys = append(keys, k)
			}
			sort.Ints(keys)
			ps := ""
			for _, k := range keys {
				ps += fmt.Sprintf("%d%s,", k, pl[k])
			}
			res.Eval(vh.Sig(hs, ps))
			res.Count("fault_executions", 1)
			nc := 0
			for _, st := range tr.Steps {
				nc += len(st.Calls)
			}
			res.Count("driver_calls", int64(nc))
		}
	}, nil)
}
