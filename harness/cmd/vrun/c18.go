package main

import (
	"encoding/binary"
	"fmt"
	"os"
	"sort"
	"strings"
	"sync"
	"sync/atomic"
	"syscall"
	"time"

	"github.com/free5gc/go-upf/internal/report"
	"github.com/free5gc/go-upf/internal/verif/vh"
)

func init() { checks["c18"] = runC18 }

type c18Cfg struct {
	Scenario  string `json:"scenario"` // tick-then-reassociate tick-then-delete-storm multicast-burst direct-burst mixed
	Sessions  int    `json:"sessions"`
	URRs      int    `json:"urrs_per_session"`
	Periods   int    `json:"periods"`
	Burst     int    `json:"burst"`
	Producers int    `json:"producers"`
	KLatUs    int    `json:"kernel_latency_us"`
}

func blockedState(st string) bool {
	switch st {
	case "chan send", "chan receive", "select", "sync.Mutex.Lock", "semacquire", "sync.RWMutex.Lock", "sync.RWMutex.RLock", "sync.Cond.Wait", "sync.WaitGroup.Wait":
		return true
	}
	return blockedForever(st)
}

// blockedForever: states no other goroutine can ever end (the runtime's own wording)
func blockedForever(st string) bool {
	return strings.Contains(st, "(nil chan)") || strings.Contains(st, "select (no cases)")
}

// waitsFor maps a blocked go-upf goroutine to the goroutine role that must act
// for it to continue ("" = not blocked on another go-upf goroutine). The map
// encodes who consumes which queue / holds which lock: report, timeout and
// receive queues -> event loop; perio event queue -> perio server; netlink
// replies -> mux goroutine; the report hand-over's lock -> its drain goroutine.
func waitsFor(g gInfo) string {
	if !blockedState(g.State) {
		return ""
	}
	switch {
	case strings.Contains(g.Inner, "go-nl.(*Client).Do"):
		return "netlink-mux"
	case strings.Contains(g.Inner, "report.(*AsyncHandler)") && (g.State == "sync.Mutex.Lock" || g.State == "semacquire"):
		return "report-drain"
	case strings.Contains(g.Inner, "pfcp.(*PfcpServer).NotifySessReport"), strings.Contains(g.Inner, "pfcp.(*PfcpServer).NotifyTransTimeout"):
		return "event-loop"
	case strings.Contains(g.Inner, "NotifySessReport"):
		// a producer inside some other hand-over stage in front of the server
		return "event-loop"
	case strings.Contains(g.Inner, "PeriodReportTimer") || strings.Contains(g.Inner, "perio.(*Server).post") || strings.Contains(g.Inner, "perio.(*Server).Close"):
		return "perio-server"
	case strings.Contains(g.Inner, "newTicker") && g.State == "chan send":
		return "perio-server"
	case strings.Contains(g.Inner, "stopTicker"):
		return "ticker"
	case strings.Contains(g.Inner, "pfcp.(*PfcpServer).receiver"):
		return "event-loop"
	}
	return ""
}

func c18Role(g gInfo) string {
	if strings.Contains(g.Role, "AsyncHandler).drain") || strings.Contains(g.Own, "AsyncHandler).drain") {
		return "report-drain"
	}
	return roleName(g.Role)
}

// findCycle looks for a wait-for cycle among the go-upf goroutines.
func findCycle(gs []gInfo) string {
	edge := map[string]string{}
	for _, g := range gs {
		if w := waitsFor(g); w != "" {
			edge[c18Role(g)] = w
		}
	}
	for start := range edge {
		path := []string{start}
		cur := start
		seen := map[string]bool{start: true}
		for {
			nxt, ok := edge[cur]
			if !ok {
				break
			}
			path = append(path, nxt)
			if nxt == start {
				// canonical rotation: start at the smallest name
				cyc := path[:len(path)-1]
				mi := 0
				for i := range cyc {
					if cyc[i] < cyc[mi] {
						mi = i
					}
				}
				rot := append(append([]string{}, cyc[mi:]...), cyc[:mi]...)
				return strings.Join(append(rot, rot[0]), "->")
			}
			if seen[nxt] {
				break
			}
			seen[nxt] = true
			cur = nxt
		}
	}
	return ""
}

// quiescent returns the frame the event loop is blocked in when it is blocked (not in its own select) both now
// and one second later, together with every other go-upf goroutine being blocked; "" otherwise.
func quiescent(first []gInfo) string {
	loopAt := func(gs []gInfo) string {
		for _, g := range gs {
			if roleName(g.Role) == "event-loop" && blockedState(g.State) && !strings.HasSuffix(g.Inner, "pfcp.(*PfcpServer).main") {
				return g.State + "@" + g.Inner
			}
		}
		return ""
	}
	a := loopAt(first)
	if a == "" {
		return ""
	}
	time.Sleep(time.Second)
	second := upfGoroutines()
	if loopAt(second) != a {
		return ""
	}
	return a
}

func c18Run(res *vh.Result, ci int, c c18Cfg, rng *vh.Rng) {
	res.Journal(ci, vh.J(c))
	k := vh.NewKernel()
	k.KeepLog = false
	if c.KLatUs > 0 {
		lat := time.Duration(c.KLatUs) * time.Microsecond
		var n int64
		k.Latency = func(r *vh.KReq) time.Duration {
			if atomic.AddInt64(&n, 1)%5 == 0 {
				return lat
			}
			return 0
		}
	}
	if c.Scenario == "ticker-blocked-while-its-period-empties" {
		// the one-second period's first query takes 1.3 s: its ticker fires again while the bulk removal keeps the
		// periodic server's event queue full
		k.Latency = func(r *vh.KReq) time.Duration {
			if r.Cmd == vh.KCmdGetMul {
				return 1300 * time.Millisecond
			}
			return 0
		}
	}
	if c.Scenario == "real-ticks-slow-query-reassociate" {
		// real 1 s tickers; every periodic query is slow, so that the bulk removal fills the periodic server's event
		// queue while a ticker is trying to post its next tick
		k.Latency = func(r *vh.KReq) time.Duration {
			if r.Cmd == vh.KCmdGetMul {
				return 700 * time.Millisecond
			}
			return 0
		}
	}
	if c.Scenario == "failing-slow-tick-then-reassociate" {
		// the periodic query is slow and fails (a URR vanished meanwhile): while it is in progress the bulk removal
		// fills the periodic server's event queue
		k.FailCmd = map[uint8]syscall.Errno{vh.KCmdGetMul: syscall.ENOENT}
		k.Latency = func(r *vh.KReq) time.Duration {
			if r.Cmd == vh.KCmdGetMul {
				return 400 * time.Millisecond
			}
			return 0
		}
	}
	retrans := time.Duration(0)
	if c.Scenario == "late-answers-while-the-loop-is-busy" {
		// real retransmission timers (100 ms); one slow Update FAR keeps the loop busy while the timers of the
		// reports in flight expire and the (late) answers arrive: both pile up in front of the loop
		retrans = 100 * time.Millisecond
		var slowed int32
		k.Latency = func(r *vh.KReq) time.Duration {
			if r.Cmd == vh.KCmdAddFAR && r.Flags&syscall.NLM_F_REPLACE != 0 && atomic.CompareAndSwapInt32(&slowed, 0, 1) {
				return 450 * time.Millisecond
			}
			return 0
		}
	}
	fs, err := vh.StartFull(vh.FullOpts{SMFs: 2, Kernel: k, Quiet: true, MaxRetrans: 1, Retrans: retrans})
	if err != nil {
		res.Inconc("start: " + err.Error())
		return
	}
	if err := fs.D.AttachMulticast(); err != nil {
		res.Inconc("mcast: " + err.Error())
		return
	}
	abnormal := false
	viol := func(sig, desc string, extra interface{}) {
		abnormal = true
		res.Violate(ci, "C18:"+sig, desc, map[string]interface{}{"config": c, "detail": extra})
	}
	// SMFs: asynchronous, answer every report request, count them
	var srrSeen int64
	var mu sync.Mutex
	seenSerial := map[uint64]bool{}
	var lateMu sync.Mutex
	lateAnswered := map[uint32]bool{}
	for _, s := range fs.SMFs {
		s := s
		s.SetOnReport(func(d *vh.Datagram) vh.ReportAction {
			atomic.AddInt64(&srrSeen, 1)
			if c.Scenario == "late-answers-while-the-loop-is-busy" && d.M != nil {
				// every request is answered once, 250 ms after its first copy (later than the retransmission timer)
				lateMu.Lock()
				first := !lateAnswered[d.M.Seq]
				lateAnswered[d.M.Seq] = true
				lateMu.Unlock()
				if d.M != nil {
					mu.Lock()
					for _, e := range d.M.FindAll(vh.TUsaRepReq) {
						u := vh.ParseURep(e)
						if u.HasVol {
							seenSerial[(u.Vol[0]-1)/1000] = true
						}
					}
					mu.Unlock()
				}
				if first {
					seq := d.M.Seq
					time.AfterFunc(250*time.Millisecond, func() {
						one := uint64(1)
						s.SendFrom(0, vh.BuildMsg(vh.MRepRsp, &one, seq, vh.Cause(vh.CauseAccepted)))
					})
				}
				return vh.ReportAction{Ignore: true}
			}
			if d.M != nil {
				mu.Lock()
				for _, e := range d.M.FindAll(vh.TUsaRepReq) {
					u := vh.ParseURep(e)
					if u.HasVol {
						seenSerial[(u.Vol[0]-1)/1000] = true
					}
				}
				mu.Unlock()
			}
			return vh.ReportAction{SEID: 1}
		})
		s.StartReaders()
	}
	var answered int64
	// request with retransmission (same sequence number) until answered or the run is declared stuck
	var stuck int32
	doReq := func(s *vh.SMF, msg []byte, seq uint32) *vh.Datagram {
		for atomic.LoadInt32(&stuck) == 0 {
			s.SendFrom(0, msg)
			if d := s.WaitRsp(seq, 400*time.Millisecond); d != nil {
				atomic.AddInt64(&answered, 1)
				return d
			}
		}
		return nil
	}
	// progress watchdog: no progress for 4 s while obligations are outstanding -> look for a wait-for cycle
	progress := func() int64 {
		return atomic.LoadInt64(&answered) + atomic.LoadInt64(&srrSeen) + atomic.LoadInt64(&k.NReq)
	}
	type verdict struct {
		cycle string
		gs    []gInfo
		q     string
	}
	checkStuck := func(what string) *verdict {
		last := progress()
		still := 0
		for {
			time.Sleep(250 * time.Millisecond)
			p := progress()
			if p != last {
				return nil // it moves: caller keeps waiting
			}
			still++
			if still >= 16 {
				gs := upfGoroutines()
				r, s, t := fs.Env.Srv.VerifQueueLens()
				rc, sc, tc := fs.Env.Srv.VerifQueueCaps()
				pl, pc := fs.D.G.VerifPerio().VerifQueueLen()
				return &verdict{findCycle(gs), gs, fmt.Sprintf("rcvCh %d/%d srCh %d/%d trToCh %d/%d perio-evtCh %d/%d", r, rc, s, sc, t, tc, pl, pc)}
			}
		}
	}
	finish := func(v *verdict, what string) {
		atomic.StoreInt32(&stuck, 1)
		forever := ""
		for _, g := range v.gs {
			if roleName(g.Role) == "event-loop" && blockedForever(g.State) {
				forever = g.State + "@" + g.Inner
			}
		}
		if forever != "" {
			// the loop sits in an operation on a nil channel: nothing can ever wake it (needs no second look)
			viol("wedge:event-loop-blocked-forever:"+strings.ReplaceAll(forever, " ", "-"), fmt.Sprintf("no progress for 4 s while %s; the event loop is blocked for ever in %s; queues: %s", what, forever, v.q), v.gs)
		} else if v.cycle != "" {
			viol("wedge:"+v.cycle, fmt.Sprintf("no progress for 4 s while %s; wait-for cycle %s; queues: %s", what, v.cycle, v.q), v.gs)
		} else if w2 := quiescent(v.gs); w2 != "" {
			// W2: closed-system quiescence - a second dump one second later shows the event loop blocked at the same
			// place, outside its select, while requests are retransmitted to it
			viol("wedge:event-loop-blocked-in:"+strings.ReplaceAll(w2, " ", "-"), fmt.Sprintf("no progress for 5 s while %s; no wait-for cycle recognised, but the event loop stays blocked in %s; queues: %s", what, w2, v.q), v.gs)
		} else {
			res.Inconc(fmt.Sprintf("case %d: no progress while %s but no wait-for cycle among go-upf goroutines (%s)", ci, what, v.q))
			abnormal = true
		}
	}
	// await waits until cond() or a stall verdict
	await := func(cond func() bool, what string) bool {
		deadline := time.Now().Add(120 * time.Second)
		for !cond() {
			if time.Now().After(deadline) {
				res.Inconc(fmt.Sprintf("case %d: watchdog while %s", ci, what))
				abnormal = true
				atomic.StoreInt32(&stuck, 1)
				return false
			}
			if v := checkStuck(what); v != nil {
				if cond() {
					return true
				}
				finish(v, what)
				return false
			}
		}
		return true
	}

	// ---- set-up: sessions with periodic URRs ----
	owner := fs.SMFs[0]
	other := fs.SMFs[1]
	for _, s := range fs.SMFs {
		seq := s.NextSeq()
		if doReq(s, vh.BuildMsg(vh.MAssocReq, nil, seq, vh.NodeIDv4(s.IP), vh.RecoveryTS(1)), seq) == nil {
			res.Inconc("association unanswered")
			return
		}
	}
	var ups []uint64
	for i := 0; i < c.Sessions; i++ {
		seq := owner.NextSeq()
		zero := uint64(0)
		ies := []*vh.IE{vh.NodeIDv4(owner.IP), vh.FSEIDv4(uint64(0x1000+i), owner.IP),
			vh.Rule{Kind: "FAR", ID: 1, Action: 0xc, Peer: 1, TEID: 9}.CreateIE()}
		for u := 1; u <= c.URRs; u++ {
			per := uint32(3600 * (1 + (i+u)%c.Periods))
			if c.Scenario == "real-ticks-slow-query-reassociate" {
				per = 1 // real one-second tickers
			}
			if c.Scenario == "ticker-blocked-while-its-period-empties" && i == 0 && u == 1 {
				per = 1 // one URR of the first session alone has a real one-second ticker
			}
			ies = append(ies, vh.Rule{Kind: "URR", ID: uint64(u), Method: 2, Trig: 3, Period: per}.CreateIE())
		}
		ies = append(ies, vh.Rule{Kind: "PDR", ID: 1, FAR: 1, URRs: []uint32{1}}.CreateIE())
		d := doReq(owner, vh.BuildMsg(vh.MEstReq, &zero, seq, ies...), seq)
		if d == nil || d.M == nil || d.M.Find(vh.TFSEID) == nil {
			res.Inconc("establishment unanswered")
			return
		}
		ups = append(ups, binary.BigEndian.Uint64(d.M.Find(vh.TFSEID).V[1:9]))
	}
	// one session of the other SMF: its requests are the "every request is eventually answered" obligation
	seq := other.NextSeq()
	zero := uint64(0)
	d := doReq(other, vh.BuildMsg(vh.MEstReq, &zero, seq, vh.NodeIDv4(other.IP), vh.FSEIDv4(0x2000, other.IP),
		vh.Rule{Kind: "URR", ID: 1, Method: 2, Trig: 2}.CreateIE(), vh.Rule{Kind: "FAR", ID: 1, Action: 2}.CreateIE()), seq)
	if d == nil || d.M == nil || d.M.Find(vh.TFSEID) == nil {
		res.Inconc("establishment unanswered")
		return
	}
	otherUP := binary.BigEndian.Uint64(d.M.Find(vh.TFSEID).V[1:9])

	// ---- the trigger ----
	var wg sync.WaitGroup
	serial := uint64(ci+1) * 10000000
	var expectSerial []uint64
	injectTick := func() {
		for p := 1; p <= c.Periods; p++ {
			fs.D.G.VerifPerio().VerifInjectTick(time.Duration(3600*p) * time.Second)
		}
	}
	burst := func(n, producers int, via string) {
		for p := 0; p < producers; p++ {
			wg.Add(1)
			var mine []uint64
			for j := 0; j < n/producers; j++ {
				serial++
				mine = append(mine, serial)
				expectSerial = append(expectSerial, serial)
			}
			go func(p int, mine []uint64) {
				defer wg.Done()
				for _, sn := range mine {
					if atomic.LoadInt32(&stuck) != 0 {
						return
					}
					if via == "multicast" {
						fs.D.MulticastAsync(mcastReport(otherUP, 1, sn))
					} else {
						u := vh.UniqueUSAR(1, sn)
						u.USARTrigger.Flags = report.USAR_TRIG_VOLTH
						fs.Env.Srv.NotifySessReport(report.SessReport{SEID: otherUP, Reports: []report.Report{u}})
					}
				}
			}(p, mine)
		}
	}
	what := ""
	var requests []func() bool
	reqAsync := func(s *vh.SMF, msg []byte, seq uint32) func() bool {
		done := make(chan bool, 1)
		go func() { done <- doReq(s, msg, seq) != nil }()
		var res *bool
		return func() bool {
			if res != nil {
				return *res
			}
			select {
			case r := <-done:
				res = &r
				return r
			default:
				return false
			}
		}
	}
	switch c.Scenario {
	case "buffered-packet-burst":
		what = "more buffered-packet notifications arrive for one PDR than its queue holds, through the real mux goroutine, while requests are being served"
		for j := 0; j < c.Burst; j++ {
			act := uint16(4)
			if j%64 == 0 {
				act = 0xc // now and then with a downlink-data notification to the SMF
			}
			fs.D.MulticastAsync(vh.BufferMsg(ups[0], 1, act, []byte{0x45, byte(j >> 8), byte(j)}))
		}
		for i := 0; i < 20; i++ {
			up := ups[i%len(ups)]
			seq := owner.NextSeq()
			requests = append(requests, reqAsync(owner, vh.BuildMsg(vh.MModReq, &up, seq, vh.Grp(vh.TQueryURR, vh.URRID(1))), seq))
		}
		{
			// ... and the release of what was kept must still work
			up := ups[0]
			seq := owner.NextSeq()
			requests = append(requests, reqAsync(owner, vh.BuildMsg(vh.MModReq, &up, seq, vh.Rule{Kind: "FAR", ID: 1, Action: 2, Peer: 1, TEID: 9}.UpdateIE()), seq))
		}
	case "late-answers-while-the-loop-is-busy":
		what = "the answers to a burst of reports arrive after their retransmission timers fired, while a slow data-plane call keeps the loop busy"
		burst(c.Burst, 1, "direct")
		wg.Wait() // all handed to the server (non-blocking hand-over)
		time.Sleep(30 * time.Millisecond)
		{
			up := ups[0]
			seq := owner.NextSeq()
			requests = append(requests, reqAsync(owner, vh.BuildMsg(vh.MModReq, &up, seq, vh.Rule{Kind: "FAR", ID: 1, Action: 2, Peer: 1, TEID: 9}.UpdateIE()), seq))
		}
		time.Sleep(600 * time.Millisecond) // the slow call is over; timers fired at 100 ms, answers came at 250 ms
		for i := 0; i < 10; i++ {
			up := ups[i%len(ups)]
			seq := owner.NextSeq()
			requests = append(requests, reqAsync(owner, vh.BuildMsg(vh.MModReq, &up, seq, vh.Grp(vh.TQueryURR, vh.URRID(1))), seq))
		}
	case "ticker-blocked-while-its-period-empties":
		what = "the only URR of a one-second period is removed (followed by a bulk removal) while its slow query runs and its ticker fires again"
		time.Sleep(1050 * time.Millisecond) // first real tick: the slow query is in progress
		{
			up := ups[0]
			seq := owner.NextSeq()
			requests = append(requests, reqAsync(owner, vh.BuildMsg(vh.MDelReq, &up, seq), seq))
			time.Sleep(20 * time.Millisecond)
			seq = owner.NextSeq()
			requests = append(requests, reqAsync(owner, vh.BuildMsg(vh.MAssocReq, nil, seq, vh.NodeIDv4(owner.IP), vh.RecoveryTS(2)), seq))
		}
	case "real-ticks-slow-query-reassociate":
		what = "re-associating a node with many sessions while real tickers fire and periodic queries are slow"
		time.Sleep(1100 * time.Millisecond) // the first real tick is being queried (slowly) now
		seq := owner.NextSeq()
		requests = append(requests, reqAsync(owner, vh.BuildMsg(vh.MAssocReq, nil, seq, vh.NodeIDv4(owner.IP), vh.RecoveryTS(2)), seq))
	case "failing-slow-tick-then-reassociate":
		what = "re-associating a node with many sessions while a slow periodic query is about to fail"
		injectTick()
		time.Sleep(50 * time.Millisecond) // the query is now in progress in the simulated kernel
		seq := owner.NextSeq()
		requests = append(requests, reqAsync(owner, vh.BuildMsg(vh.MAssocReq, nil, seq, vh.NodeIDv4(owner.IP), vh.RecoveryTS(2)), seq))
	case "tick-then-reassociate":
		what = "re-associating a node with many sessions right after a periodic tick"
		injectTick()
		seq := owner.NextSeq()
		requests = append(requests, reqAsync(owner, vh.BuildMsg(vh.MAssocReq, nil, seq, vh.NodeIDv4(owner.IP), vh.RecoveryTS(2)), seq))
	case "tick-then-delete-storm":
		what = "deleting many sessions right after a periodic tick"
		injectTick()
		for _, up := range ups {
			up := up
			seq := owner.NextSeq()
			requests = append(requests, reqAsync(owner, vh.BuildMsg(vh.MDelReq, &up, seq), seq))
		}
	case "multicast-burst":
		what = "a burst of kernel report notifications arrives while requests are being served"
		burst(c.Burst, 1, "multicast")
		for i := 0; i < 30; i++ {
			up := ups[i%len(ups)]
			seq := owner.NextSeq()
			requests = append(requests, reqAsync(owner, vh.BuildMsg(vh.MModReq, &up, seq, vh.Rule{Kind: "FAR", ID: 1, Action: 2}.UpdateIE(), vh.Grp(vh.TQueryURR, vh.URRID(1))), seq))
		}
	case "direct-burst":
		what = "concurrent report producers overflow the report queue while requests are being served"
		burst(c.Burst, c.Producers, "direct")
		for i := 0; i < 30; i++ {
			up := ups[i%len(ups)]
			seq := owner.NextSeq()
			requests = append(requests, reqAsync(owner, vh.BuildMsg(vh.MModReq, &up, seq, vh.Grp(vh.TQueryURR, vh.URRID(1))), seq))
		}
	default: // mixed
		what = "ticks, multicast and direct report bursts and a deletion storm at once"
		injectTick()
		burst(c.Burst/2, 1, "multicast")
		burst(c.Burst/2, c.Producers, "direct")
		for _, up := range ups {
			up := up
			seq := owner.NextSeq()
			requests = append(requests, reqAsync(owner, vh.BuildMsg(vh.MDelReq, &up, seq), seq))
		}
	}
	// the bystander's request must be answered too
	seq = other.NextSeq()
	requests = append(requests, reqAsync(other, vh.BuildMsg(vh.MModReq, &otherUP, seq, vh.Grp(vh.TQueryURR, vh.URRID(1))), seq))

	ok := await(func() bool {
		for _, r := range requests {
			if !r() {
				return false
			}
		}
		return true
	}, what+" (requests outstanding)")
	if ok {
		pw := make(chan struct{})
		go func() { wg.Wait(); close(pw) }()
		ok = await(func() bool {
			select {
			case <-pw:
				return true
			default:
				return false
			}
		}, what+" (producers blocked)")
	}
	if ok {
		ok = await(func() bool {
			mu.Lock()
			defer mu.Unlock()
			for _, sn := range expectSerial {
				if !seenSerial[sn] {
					return false
				}
			}
			return true
		}, what+" (reports not yet forwarded)")
		if !ok && !abnormal {
			abnormal = true
		}
	}
	res.Count("requests", int64(len(requests)))
	res.Count("reports_expected", int64(len(expectSerial)))
	res.Count("report_requests_seen", atomic.LoadInt64(&srrSeen))
	res.Count("netlink_requests", atomic.LoadInt64(&k.NReq))
	res.Eval(vh.Sig(vh.J(c)))
	if ci < 3 {
		res.Sample(c)
	}
	if abnormal {
		res.NextCase = ci + 1
		res.Write(false)
		os.Exit(3) // the stack is wedged: continue in a fresh worker process
	}
	atomic.StoreInt32(&stuck, 1)
	if err := fs.Stop(); err != nil {
		gs := upfGoroutines()
		viol("stop-hangs-after-burst:"+strings.Join(rootCauses(gs), "|"), "the UPF did not stop after the scenario completed", gs)
		res.NextCase = ci + 1
		res.Write(false)
		os.Exit(3)
	}
}

func runC18(res *vh.Result) {
	res.Rule = "closed system (timers far in the future, ticks injected, SMFs retransmit unanswered requests): session count x periodic URRs per session x periods x " +
		"simulated-kernel latency swept across the capacities of the periodic server's event queue (512) and the report queue (128), with the triggers " +
		"tick-then-reassociate, tick-then-delete-storm, multicast burst through the real mux goroutine, direct producer burst, and all mixed; held = every request " +
		"answered, every producer returned and every uniquely valued report forwarded; violated = no progress for 4 s AND a wait-for cycle among go-upf goroutines " +
		"(time independent); no cycle = inconclusive; every case is non-trivial; distinct = distinct configurations"
	res.Assumptions = []string{
		"liveness restated: completion of a closed system, or a wait-for cycle witness taken from goroutine dumps and queue lengths",
		"the static wait-for map (who consumes which queue) is harness knowledge: srCh/rcvCh/trToCh -> event loop, perio event queue -> perio server, netlink replies -> mux goroutine",
	}
	grid := []c18Cfg{
		{Scenario: "tick-then-reassociate", Sessions: 50, URRs: 1, Periods: 1},
		{Scenario: "tick-then-reassociate", Sessions: 130, URRs: 2, Periods: 1},
		{Scenario: "tick-then-reassociate", Sessions: 300, URRs: 2, Periods: 1},
		{Scenario: "tick-then-delete-storm", Sessions: 300, URRs: 2, Periods: 2},
		{Scenario: "multicast-burst", Sessions: 4, URRs: 1, Periods: 1, Burst: 100},
		{Scenario: "multicast-burst", Sessions: 4, URRs: 1, Periods: 1, Burst: 600, KLatUs: 500},
		{Scenario: "direct-burst", Sessions: 4, URRs: 1, Periods: 1, Burst: 2000, Producers: 8},
		{Scenario: "mixed", Sessions: 260, URRs: 2, Periods: 2, Burst: 600, Producers: 4, KLatUs: 200},
		{Scenario: "failing-slow-tick-then-reassociate", Sessions: 300, URRs: 2, Periods: 1},
		{Scenario: "real-ticks-slow-query-reassociate", Sessions: 300, URRs: 2, Periods: 1},
		{Scenario: "ticker-blocked-while-its-period-empties", Sessions: 300, URRs: 2, Periods: 1},
		{Scenario: "late-answers-while-the-loop-is-busy", Sessions: 4, URRs: 1, Periods: 1, Burst: 40},
		{Scenario: "buffered-packet-burst", Sessions: 4, URRs: 1, Periods: 1, Burst: 1300},
	}
	n := vh.Tiered(len(grid), 300)
	res.Cases(n, func(i int, rng *vh.Rng) {
		var c c18Cfg
		if i < len(grid) {
			c = grid[i]
		} else {
			c = c18Cfg{Scenario: []string{"tick-then-reassociate", "tick-then-delete-storm", "multicast-burst", "direct-burst", "mixed", "failing-slow-tick-then-reassociate", "real-ticks-slow-query-reassociate", "ticker-blocked-while-its-period-empties", "late-answers-while-the-loop-is-busy", "buffered-packet-burst"}[rng.Intn(10)],
				Sessions: []int{10, 50, 100, 130, 200, 260, 300, 700, 1500}[rng.Intn(9)], URRs: rng.Range(1, 3), Periods: rng.Range(1, 3),
				Burst: []int{100, 128, 129, 300, 600, 2000}[rng.Intn(6)], Producers: rng.Range(1, 8), KLatUs: []int{0, 0, 100, 1000}[rng.Intn(4)]}
			if c.Sessions >= 700 {
				c.URRs = 1
			}
		}
		c18Run(res, i, c, rng)
	}, nil)
}

var _ = sort.Strings
