package main

import (
	"encoding/binary"
	"fmt"
	"syscall"

	"github.com/free5gc/go-upf/internal/verif/vh"
)

func init() { checks["c13"] = runC13 }

type c13Op struct {
	K      string `json:"k"` // buf upd rmpdr del est
	Sess   int    `json:"sess"`
	PDR    uint16 `json:"pdr,omitempty"`
	FAR    uint32 `json:"far,omitempty"`
	Action uint16 `json:"action,omitempty"`
	N      int    `json:"n,omitempty"`
	Target string `json:"target,omitempty"` // live unknown ended
}

type c13PDR struct {
	far  uint32
	qers []uint32
}

type c13FAR struct {
	action uint16
	peer   int
	teid   uint32
}

type c13Sess struct {
	inc    int
	smf    int
	cp, up uint64
	alive  bool
	pdr    map[uint16]*c13PDR
	far    map[uint32]*c13FAR
	qfi    map[uint32]uint8
	q      map[uint16][][]byte
}

func c13Payload(inc int, pdr uint16, serial uint32, size int) []byte {
	b := make([]byte, 12+size)
	b[0] = 0x45 // looks like an IPv4 packet
	binary.BigEndian.PutUint32(b[1:5], uint32(inc))
	binary.BigEndian.PutUint16(b[5:7], pdr)
	binary.BigEndian.PutUint32(b[7:11], serial)
	for i := 11; i < len(b); i++ {
		b[i] = byte(serial) + byte(i)
	}
	return b
}

func runC13(res *vh.Result) {
	res.Rule = "full stack: BUFFER multicasts with unique payloads (live / never-issued / ended sessions, bursts up to 1500), FAR apply-action transitions among " +
		"DROP, FORW, BUFF, BUFF|NOCP, PDR and session removal, SEID re-use with the same rule ids; packets arriving at simulated gNB sockets are decoded with " +
		"the independent GTP-U decoder and compared with a per (session incarnation, PDR) FIFO model; downlink-data notifications compared with the NOCP flag; " +
		"non-trivial = at least one BUFF->FORW or BUFF->DROP transition with queued packets; distinct = distinct operation sequences"
	res.Assumptions = []string{
		"simulated kernel returns FAR/QER <-> PDR relations like gtp5g (GET_FAR / GET_PDR / GET_QER)",
		"not generated (destination / ownership not fixed by the statement): Update FAR changing forwarding parameters together with the switch to FORW, " +
			"DROP|FORW or FORW|BUFF combinations, re-creating a removed PDR id inside one session, notifications for a SEID after it was re-issued",
		"queue capacity is learned from the first overflow and only required to be equal for all queues",
	}
	ncases := vh.Tiered(1000, 60000)
	res.Cases(ncases, func(ci int, rng *vh.Rng) {
		fs, err := vh.StartFull(vh.FullOpts{SMFs: 3, GNBs: 2}) // SMF 2 is never associated: the take-over target
		if err != nil {
			res.Inconc("start: " + err.Error())
			return
		}
		var ops []c13Op
		defer func() {
			if err := fs.Stop(); err != nil {
				res.Inconc("stop: " + err.Error())
			}
			if f := vh.TakeFatals(); len(f) > 0 {
				res.Violate(ci, "C13:"+vh.FaultSig(f[0]), "fatal while buffering", map[string]interface{}{"ops": ops, "fatal": f[0]})
			}
		}()
		viol := func(sig, desc string) {
			res.Violate(ci, "C13:"+sig, fmt.Sprintf("op %d (%s): %s", len(ops)-1, ops[len(ops)-1].K, desc), map[string]interface{}{"ops": ops})
		}
		for i, s := range fs.SMFs {
			s.SetOnReport(func(d *vh.Datagram) vh.ReportAction { return vh.ReportAction{SEID: 1} })
			if i == 2 {
				continue
			}
			if err := fs.Associate(s); err != nil {
				res.Inconc("associate: " + err.Error())
				return
			}
		}
		takenOver := false
		var sess []*c13Sess
		incs := 0
		capacity := -1
		serial := uint32(0)
		interesting := 0
		gone := map[int]bool{} // SMFs whose node id was renamed away by a take-over
		pickSMF := func() int {
			for {
				n := rng.Intn(2)
				if !gone[n] {
					return n
				}
				if gone[0] && gone[1] {
					return 2
				}
			}
		}
		establish := func() *c13Sess {
			incs++
			s := &c13Sess{inc: incs, smf: pickSMF(), cp: uint64(0x200 + incs), alive: true,
				pdr: map[uint16]*c13PDR{}, far: map[uint32]*c13FAR{}, qfi: map[uint32]uint8{}, q: map[uint16][][]byte{}}
			var rules []vh.Rule
			for q := uint32(1); q <= 2; q++ {
				qfi := uint8(0)
				if rng.Chance(2, 3) {
					qfi = uint8(rng.Range(1, 63))
				}
				s.qfi[q] = qfi
				rules = append(rules, vh.Rule{Kind: "QER", ID: uint64(q), QFI: qfi})
			}
			nfar := rng.Range(1, 2)
			for f := uint32(1); f <= uint32(nfar); f++ {
				fr := &c13FAR{action: []uint16{4, 0xc, 4, 0xc, 4, 2, 1}[rng.Intn(7)], peer: rng.Range(1, 2), teid: uint32(0x5000 + incs*16 + int(f))}
				if fr.action&4 != 0 && rng.Chance(1, 3) {
					fr.peer, fr.teid = 0, 0 // an idle UE: buffering FAR without forwarding parameters yet
				}
				s.far[f] = fr
				rules = append(rules, vh.Rule{Kind: "FAR", ID: uint64(f), Action: fr.action, Peer: fr.peer, TEID: fr.teid})
			}
			for p := uint16(1); p <= uint16(rng.Range(1, 3)); p++ {
				pd := &c13PDR{far: uint32(rng.Range(1, nfar))}
				switch rng.Intn(4) {
				case 0:
				case 1:
					pd.qers = []uint32{1}
				case 2:
					pd.qers = []uint32{2}
				case 3:
					pd.qers = []uint32{1, 2}
				}
				s.pdr[p] = pd
				rules = append(rules, vh.Rule{Kind: "PDR", ID: uint64(p), FAR: pd.far, QERs: pd.qers, UEIP: true})
			}
			up, _, err := fs.Establish(fs.SMFs[s.smf], s.cp, rules)
			if err != nil {
				res.Inconc("establish: " + err.Error())
				return nil
			}
			s.up = up
			sess = append(sess, s)
			return s
		}
		if establish() == nil {
			return
		}
		if rng.Bool() {
			if establish() == nil {
				return
			}
		}
		repSeen := make([]int, len(fs.SMFs))
		nops := rng.Range(6, 30)
		for n := 0; n < nops; n++ {
			var live, dead []*c13Sess
			for _, s := range sess {
				if s.alive {
					live = append(live, s)
				} else {
					dead = append(dead, s)
				}
			}
			if len(live) == 0 {
				if establish() == nil {
					return
				}
				continue
			}
			s := live[rng.Intn(len(live))]
			si := 0
			for i, x := range sess {
				if x == s {
					si = i
				}
			}
			op := c13Op{Sess: si}
			expectPkts := [][]interface{}{} // per expected packet: gnb, teid, qfi(-1 none), payload
			expectDLDR := map[string]int{}  // "smf/cp/pdr" -> count
			smf := fs.SMFs[s.smf]
			switch r := rng.Intn(12); {
			case r < 5:
				op.K = "buf"
				op.Target = "live"
				seid := s.up
				target := s
				switch rng.Intn(10) {
				case 0:
					op.Target, seid, target = "unknown", 0x7777, nil
				case 1:
					// an ended session whose SEID has not been re-issued
					for _, d := range dead {
						reused := false
						for _, l := range live {
							if l.up == d.up {
								reused = true
							}
						}
						if !reused {
							op.Target, seid, target = "ended", d.up, nil
						}
					}
				}
				op.PDR = uint16(rng.Range(1, 3))
				op.N = 1
				switch rng.Intn(10) {
				case 0:
					op.N = rng.Range(500, 1500)
				case 1, 2:
					op.N = rng.Range(2, 40)
				}
				op.Action = 4
				if target != nil {
					if p := target.pdr[op.PDR]; p != nil {
						op.Action = target.far[p.far].action
					}
				}
				if rng.Chance(1, 6) {
					op.Action = []uint16{4, 0xc, 2, 8, 1}[rng.Intn(5)]
				}
				ops = append(ops, op)
				for j := 0; j < op.N; j++ {
					serial++
					inc := 0
					if target != nil {
						inc = target.inc
					}
					pl := c13Payload(inc, op.PDR, serial, rng.Intn(40))
					fs.Multicast(vh.BufferMsg(seid, op.PDR, op.Action, pl))
					if target != nil {
						if op.Action&4 != 0 {
							target.q[op.PDR] = append(target.q[op.PDR], pl)
						}
						if op.Action&8 != 0 {
							expectDLDR[fmt.Sprintf("%d/%#x/%d", target.smf, target.cp, op.PDR)]++
						}
					}
				}
				res.Count("buffer_notifications", int64(op.N))
			case r < 9:
				op.K = "upd"
				op.FAR = uint32(rng.Range(1, len(s.far)))
				fr := s.far[op.FAR]
				op.Action = []uint16{1, 2, 2, 4, 0xc}[rng.Intn(5)]
				if fr.action&4 != 0 && rng.Chance(2, 3) {
					op.Action = []uint16{2, 2, 2, 1}[rng.Intn(4)] // release what is buffered
				} else if fr.action&4 == 0 && rng.Chance(2, 3) {
					op.Action = []uint16{4, 0xc}[rng.Intn(2)] // back to buffering
				}
				newPeer, newTEID := 0, uint32(0)
				// now and then the kernel refuses the update (ADD_FAR with REPLACE fails): the FAR keeps its
				// action and tunnel, so nothing may be released or discarded - the packets wait for the next switch
				refuse := rng.Chance(1, 6)
				oldPeer, oldTEID := fr.peer, fr.teid
				if refuse {
					op.Target = "refused-by-the-kernel"
				}
				if fr.peer == 0 && op.Action&2 != 0 {
					// the UE became reachable: the switch to FORW brings the tunnel (Update Forwarding Parameters) with it
					newPeer, newTEID = rng.Range(1, 2), uint32(0x7000+len(ops))
					fr.peer, fr.teid = newPeer, newTEID
					op.Target += " forw-with-new-tunnel"
				}
				ops = append(ops, op)
				wasBuff := fr.action&4 != 0
				if refuse {
					queued := 0
					for p := uint16(1); p <= 3; p++ {
						if pd := s.pdr[p]; pd != nil && pd.far == op.FAR {
							queued += len(s.q[p])
						}
					}
					if wasBuff && queued > 0 && op.Action&3 != 0 {
						interesting++
						res.Count("refused_release_transitions_with_packets", 1)
					}
					fs.D.K.SetFailCmd(vh.KCmdAddFAR, syscall.ENOMEM)
				}
				if !refuse && wasBuff && (op.Action&1 != 0 || op.Action&2 != 0) {
					queued := 0
					for p := uint16(1); p <= 3; p++ {
						pd := s.pdr[p]
						if pd == nil || pd.far != op.FAR {
							continue
						}
						queued += len(s.q[p])
						if op.Action&2 != 0 {
							qfi := -1
							for _, q := range pd.qers {
								if s.qfi[q] != 0 {
									qfi = int(s.qfi[q])
									break
								}
							}
							kept := s.q[p]
							if capacity >= 0 && len(kept) > capacity {
								kept = kept[:capacity]
							}
							for _, pl := range kept {
								expectPkts = append(expectPkts, []interface{}{fr.peer, fr.teid, qfi, pl, p, len(s.q[p])})
							}
						}
						s.q[p] = nil
					}
					if queued > 0 {
						interesting++
					}
				}
				seq := smf.NextSeq()
				uie := vh.Rule{Kind: "FAR", ID: uint64(op.FAR), Action: op.Action, Peer: newPeer, TEID: newTEID}.UpdateIE()
				if rng.Chance(1, 4) {
					// PFCP fixes no order of the IEs inside a grouped IE: Apply Action before FAR ID
					uie.C[0], uie.C[1] = uie.C[1], uie.C[0]
					ops[len(ops)-1].Target += " apply-action-before-far-id"
				}
				_, rerr := fs.Request(smf, 0, vh.BuildMsg(vh.MModReq, &s.up, seq, uie), seq, true)
				if refuse {
					fs.Quiesce()
					fs.D.K.SetFailCmd(vh.KCmdAddFAR, 0)
					fr.peer, fr.teid = oldPeer, oldTEID
				}
				if rerr != nil {
					res.Inconc("request: " + rerr.Error())
					return
				}
				if !refuse {
					fr.action = op.Action
				}
			case r < 10:
				op.K = "rmpdr"
				op.PDR = uint16(rng.Range(1, 3))
				if s.pdr[op.PDR] == nil {
					continue
				}
				ops = append(ops, op)
				seq := smf.NextSeq()
				if _, err := fs.Request(smf, 0, vh.BuildMsg(vh.MModReq, &s.up, seq, vh.Rule{Kind: "PDR", ID: uint64(op.PDR)}.RemoveIE()), seq, true); err != nil {
					res.Inconc("request: " + err.Error())
					return
				}
				delete(s.pdr, op.PDR)
				s.q[op.PDR] = nil // whatever is still queued for the PDR can no longer be released by this model (never re-created)
			case r < 11:
				op.K = "del"
				ops = append(ops, op)
				seq := smf.NextSeq()
				if _, err := fs.Request(smf, 0, vh.BuildMsg(vh.MDelReq, &s.up, seq), seq, true); err != nil {
					res.Inconc("request: " + err.Error())
					return
				}
				s.alive = false
			default:
				// a new SMF (fresh node id) takes the session over: notifications must follow the new owner. Only
				// when the old node owns no other live session (which sessions move would otherwise be open).
				others := 0
				for _, x := range live {
					if x.smf == s.smf && x != s {
						others++
					}
				}
				if !takenOver && others == 0 && s.smf != 2 && rng.Bool() {
					op.K = "takeover"
					ops = append(ops, op)
					seq := smf.NextSeq()
					if _, err := fs.Request(smf, 0, vh.BuildMsg(vh.MModReq, &s.up, seq, vh.NodeIDv4(fs.SMFs[2].IP)), seq, true); err != nil {
						res.Inconc("request: " + err.Error())
						return
					}
					takenOver = true
					gone[s.smf] = true
					s.smf = 2
					break
				}
				op.K = "est"
				ops = append(ops, op)
				if establish() == nil {
					return
				}
				ops[len(ops)-1].Sess = len(sess) - 1
			}
			if err := fs.Quiesce(); err != nil {
				res.Inconc("barrier: " + err.Error())
				return
			}
			for _, m := range fs.SMFs {
				m.Pump()
			}
			if err := fs.Env.Barrier(); err != nil {
				res.Inconc("barrier: " + err.Error())
				return
			}
			// ---- observed GTP-U at the gNBs ----
			type got struct {
				gnb int
				p   *vh.GPkt
			}
			var pkts []got
			for gi, g := range fs.GNBs {
				for _, p := range g.Take() {
					pkts = append(pkts, got{gi + 1, p})
				}
			}
			res.Count("gtpu_packets", int64(len(pkts)))
			if op.K == "upd" && len(expectPkts) > 0 && capacity < 0 {
				// learn the capacity from the first queue that overflowed: group observed packets by PDR
				perPDR := map[uint16]int{}
				for _, g := range pkts {
					if g.p.G != nil && len(g.p.G.Payload) >= 11 {
						perPDR[binary.BigEndian.Uint16(g.p.G.Payload[5:7])]++
					}
				}
				for _, e := range expectPkts {
					p, queued := e[4].(uint16), e[5].(int)
					if perPDR[p] < queued && perPDR[p] > 0 {
						capacity = perPDR[p]
					}
				}
				if capacity >= 0 {
					// recompute the expectation with the learned capacity
					var ne [][]interface{}
					cnt := map[uint16]int{}
					for _, e := range expectPkts {
						p := e[4].(uint16)
						if cnt[p] < capacity {
							ne = append(ne, e)
						}
						cnt[p]++
					}
					expectPkts = ne
					res.Max("max_queue_capacity_learned", int64(capacity))
				}
			}
			// compare as per-destination ordered lists (ordering between different gNB sockets is not observable)
			for gi := 1; gi <= len(fs.GNBs); gi++ {
				var want [][]interface{}
				for _, e := range expectPkts {
					if e[0].(int) == gi {
						want = append(want, e)
					}
				}
				var have []*vh.GPkt
				for _, g := range pkts {
					if g.gnb == gi {
						have = append(have, g.p)
					}
				}
				if len(have) != len(want) {
					kind := "packet-count"
					if len(have) > len(want) {
						kind = "unexpected-packets"
						for _, h := range have {
							if h.G != nil && len(h.G.Payload) >= 11 {
								inc := int(binary.BigEndian.Uint32(h.G.Payload[1:5]))
								if inc != s.inc {
									kind = "packet-of-other-session"
								}
							}
						}
					}
					viol(kind, fmt.Sprintf("gNB %d received %d packets, expected %d (queue capacity %d)", gi, len(have), len(want), capacity))
					continue
				}
				for j, h := range have {
					w := want[j]
					if h.G == nil || h.Err != nil {
						viol("malformed-gtpu", fmt.Sprintf("re-injected packet is not a well-formed G-PDU: %v", h.Err))
						continue
					}
					if string(h.G.Payload) != string(w[3].([]byte)) {
						kind := "order"
						found := false
						for _, x := range want {
							if string(x[3].([]byte)) == string(h.G.Payload) {
								found = true
							}
						}
						if !found {
							kind = "foreign-payload"
						}
						viol("packet-"+kind, fmt.Sprintf("gNB %d packet %d carries payload (inc %d pdr %d serial %d), expected serial %d", gi, j,
							binary.BigEndian.Uint32(h.G.Payload[1:5]), binary.BigEndian.Uint16(h.G.Payload[5:7]), binary.BigEndian.Uint32(h.G.Payload[7:11]),
							binary.BigEndian.Uint32(w[3].([]byte)[7:11])))
						break
					}
					if h.G.TEID != w[1].(uint32) {
						viol("packet-teid", fmt.Sprintf("re-injected with TEID %#x, the FAR's is %#x", h.G.TEID, w[1].(uint32)))
					}
					if h.G.Type != 255 {
						viol("packet-type", fmt.Sprintf("GTP-U message type %d", h.G.Type))
					}
					wq := w[2].(int)
					if wq < 0 {
						if len(h.G.Exts) != 0 {
							viol("packet-qfi-spurious", "PDU session container although no QoS flow applies")
						}
					} else {
						if len(h.G.Exts) != 1 || h.G.Exts[0].Type != 0x85 {
							viol("packet-qfi-missing", fmt.Sprintf("no PDU session container, session QFI is %d", wq))
						} else if _, q, _ := h.G.Exts[0].PDUSession(); int(q) != wq {
							viol("packet-qfi", fmt.Sprintf("QFI %d on the wire, session QFI %d", q, wq))
						}
					}
				}
			}
			// ---- downlink data notifications ----
			gotDLDR := map[string]int{}
			for i, m := range fs.SMFs {
				rs := m.ReportsSnapshot()
				for _, d := range rs[repSeen[i]:] {
					if d.M == nil {
						continue
					}
					for _, e := range d.M.FindAll(vh.TDLDataRep) {
						if p := e.Find(vh.TPDRID); p != nil {
							gotDLDR[fmt.Sprintf("%d/%#x/%d", i, d.M.SEID, p.Uint())]++
						}
					}
				}
				repSeen[i] = len(rs)
			}
			for k, n := range expectDLDR {
				if gotDLDR[k] != n {
					viol("dldr-count", fmt.Sprintf("%d downlink data reports for %s (smf/cp-seid/pdr), %d notifications asked for one", gotDLDR[k], k, n))
				}
			}
			for k, n := range gotDLDR {
				if expectDLDR[k] == 0 {
					viol("dldr-spurious", fmt.Sprintf("%d downlink data reports for %s although no notification with NOCP was raised", n, k))
				}
			}
			res.Count("dldr_reports", int64(len(gotDLDR)))
		}
		sig := ""
		if interesting > 0 {
			sig = vh.Sig(vh.J(ops))
		}
		res.Eval(sig)
		res.Count("ops", int64(len(ops)))
		res.Count("release_transitions_with_packets", int64(interesting))
		if ci < 2 {
			res.Sample(map[string]interface{}{"ops": ops})
		}
	}, nil)
}
