package main

import (
	"fmt"
	"net"
	"os"
	"path/filepath"
	"sort"
	"strconv"
	"strings"
	"sync"
	"time"

	"github.com/free5gc/go-upf/internal/verif/vh"
	"github.com/free5gc/go-upf/pkg/factory"
)

func init() { checks["c20"] = runC20 }

// ---- a tiny YAML document model (we emit, the code under test parses) ----

type yn struct {
	kind string // map list scalar
	keys []string
	m    map[string]*yn
	l    []*yn
	s    string // raw scalar text as written into the file
}

func ym(kv ...interface{}) *yn {
	n := &yn{kind: "map", m: map[string]*yn{}}
	for i := 0; i < len(kv); i += 2 {
		k := kv[i].(string)
		n.keys = append(n.keys, k)
		switch v := kv[i+1].(type) {
		case *yn:
			n.m[k] = v
		case string:
			n.m[k] = &yn{kind: "scalar", s: v}
		}
	}
	return n
}
func yl(items ...*yn) *yn { return &yn{kind: "list", l: items} }
func ys(s string) *yn     { return &yn{kind: "scalar", s: s} }

func (n *yn) clone() *yn {
	if n == nil {
		return nil
	}
	c := &yn{kind: n.kind, s: n.s, keys: append([]string{}, n.keys...)}
	if n.m != nil {
		c.m = map[string]*yn{}
		for k, v := range n.m {
			c.m[k] = v.clone()
		}
	}
	for _, x := range n.l {
		c.l = append(c.l, x.clone())
	}
	return c
}

func (n *yn) emit(b *strings.Builder, ind int, inList bool) {
	pad := strings.Repeat("  ", ind)
	switch n.kind {
	case "scalar":
		b.WriteString(n.s + "\n")
	case "map":
		if len(n.keys) == 0 {
			b.WriteString("{}\n")
			return
		}
		first := true
		for _, k := range n.keys {
			v := n.m[k]
			if !(first && inList) {
				b.WriteString(pad)
			}
			first = false
			b.WriteString(k + ":")
			if v.kind == "scalar" || (v.kind == "map" && len(v.keys) == 0) || (v.kind == "list" && len(v.l) == 0) {
				b.WriteString(" ")
				v.emit(b, ind+1, false)
			} else {
				b.WriteString("\n")
				v.emit(b, ind+1, false)
			}
		}
	case "list":
		if len(n.l) == 0 {
			b.WriteString("[]\n")
			return
		}
		for _, x := range n.l {
			b.WriteString(pad + "- ")
			if x.kind == "scalar" {
				x.emit(b, ind+1, true)
			} else if x.kind == "map" && len(x.keys) > 0 {
				x.emit(b, ind+1, true)
			} else {
				x.emit(b, ind+1, true)
			}
		}
	}
}

func (n *yn) yaml() string {
	var b strings.Builder
	n.emit(&b, 0, false)
	return b.String()
}

func baseDoc() *yn {
	return ym(
		"version", "1.0.3",
		"description", "UPF configuration",
		"pfcp", ym("addr", "127.0.0.8", "nodeID", "127.0.0.8", "retransTimeout", "1s", "maxRetrans", "3"),
		"gtpu", ym("forwarder", "gtp5g", "ifList", yl(
			ym("addr", "127.0.0.8", "type", "N3", "name", "upf.5gc.nctu.me", "ifname", "gtpif", "mtu", "1400"),
			ym("addr", "10.200.200.102", "type", "N9"))),
		"dnnList", yl(ym("dnn", "internet", "cidr", "10.60.0.0/24", "natifname", "eth0"), ym("dnn", "ims", "cidr", "10.61.0.0/16")),
		"logger", ym("enable", "true", "level", "info", "reportCaller", "false"),
	)
}

// paths enumerates every node of the document as a path of keys / indexes.
func (n *yn) paths(prefix []string, out *[][]string) {
	switch n.kind {
	case "map":
		for _, k := range n.keys {
			p := append(append([]string{}, prefix...), k)
			*out = append(*out, p)
			n.m[k].paths(p, out)
		}
	case "list":
		for i, x := range n.l {
			p := append(append([]string{}, prefix...), strconv.Itoa(i))
			*out = append(*out, p)
			x.paths(p, out)
		}
	}
}

func (n *yn) get(path []string) *yn {
	cur := n
	for _, k := range path {
		if cur == nil {
			return nil
		}
		switch cur.kind {
		case "map":
			cur = cur.m[k]
		case "list":
			i, _ := strconv.Atoi(k)
			if i >= len(cur.l) {
				return nil
			}
			cur = cur.l[i]
		default:
			return nil
		}
	}
	return cur
}

// set replaces (v != nil) or deletes (v == nil) the node at path.
func (n *yn) set(path []string, v *yn) bool {
	parent := n.get(path[:len(path)-1])
	if parent == nil {
		return false
	}
	k := path[len(path)-1]
	switch parent.kind {
	case "map":
		if _, ok := parent.m[k]; !ok {
			return false
		}
		if v == nil {
			delete(parent.m, k)
			for i, x := range parent.keys {
				if x == k {
					parent.keys = append(parent.keys[:i], parent.keys[i+1:]...)
					break
				}
			}
		} else {
			parent.m[k] = v
		}
	case "list":
		i, _ := strconv.Atoi(k)
		if i >= len(parent.l) {
			return false
		}
		if v == nil {
			parent.l = append(parent.l[:i], parent.l[i+1:]...)
		} else {
			parent.l[i] = v
		}
	default:
		return false
	}
	return true
}

type c20Mut struct {
	Path string `json:"path"`
	Kind string `json:"kind"`
	Val  string `json:"value,omitempty"`
}

// out-of-range / wrong values per leaf name
var c20Bad = map[string][]string{
	"version":        {"1.0.2", "1.0.4", "2", "1.0", "\"\"", "1.0.3.1"},
	"addr":           {"256.1.1.1", "\"not a host\"", "\"a b\"", "\"::gg\"", "-", "\"127.0.0.8:8805\""},
	"nodeID":         {"\"no such host.invalid.\"", "\"a b\"", "\"256.256.256.256\"", "\"::gg\"", "\"::1\"", "\"2001:db8::8805\"", "\"fe80::1\"", "nosuchhost.invalid"},
	"retransTimeout": {"0", "0s", "-1s", "abc", "1.5", "1x"},
	"maxRetrans":     {"300", "-1", "abc", "256", "1.5"},
	"forwarder":      {"dpdk", "GTP5G", "gtp5g2", "\"\""},
	"type":           {"N6", "n3", "N33", "\"\""},
	"mtu":            {"-1", "4294967296", "abc"},
	"cidr":           {"10.60.0.0", "10.60.0.0/33", "10.60.0/24", "abc", "\"10.60.0.0 /24\"", "10.60.0.0/-1"},
	"dnn":            {"\"\""},
	"level":          {"verbose", "INFO2", "\"\"", "warning", "5"},
	"enable":         {"maybe", "2"},
	"reportCaller":   {"maybe"},
}

func applyMut(d *yn, m c20Mut) bool {
	path := strings.Split(m.Path, "/")
	switch m.Kind {
	case "delete":
		return d.set(path, nil)
	case "empty":
		n := d.get(path)
		if n == nil {
			return false
		}
		switch n.kind {
		case "map":
			return d.set(path, ym())
		case "list":
			return d.set(path, yl())
		default:
			return d.set(path, ys("\"\""))
		}
	case "null":
		return d.set(path, ys("null"))
	case "to-list":
		return d.set(path, yl(ys("a"), ys("b")))
	case "to-map":
		return d.set(path, ym("x", "1"))
	case "to-int":
		return d.set(path, ys("12345"))
	case "to-bool":
		return d.set(path, ys("true"))
	case "to-string":
		return d.set(path, ys("\"text\""))
	case "value":
		return d.set(path, ys(m.Val))
	}
	return false
}

// ---- the independent validity predicate (deliberately broad) ----

func scalarText(n *yn) (string, bool) {
	if n == nil || n.kind != "scalar" {
		return "", false
	}
	s := n.s
	if s == "null" || s == "~" || s == "" {
		return "", false
	}
	if len(s) >= 2 && s[0] == '"' && s[len(s)-1] == '"' {
		s = s[1 : len(s)-1]
	}
	return s, true
}

func hostish(s string) bool {
	if s == "" {
		return false
	}
	for _, c := range s {
		switch {
		case c >= 'a' && c <= 'z', c >= 'A' && c <= 'Z', c >= '0' && c <= '9', c == '.', c == '-', c == ':', c == '_':
		default:
			return false
		}
	}
	return true
}

// predicate returns "" when the document is valid by the statement, otherwise
// the (first) clear reason it is not.
func predicate(d *yn) string {
	if v, ok := scalarText(d.get([]string{"version"})); !ok || v != "1.0.3" {
		return "version is not the supported 1.0.3"
	}
	p := d.get([]string{"pfcp"})
	if p == nil || p.kind != "map" {
		return "no pfcp section"
	}
	if a, ok := scalarText(p.m["addr"]); !ok || !hostish(a) {
		return "no PFCP listen address"
	}
	if a, ok := scalarText(p.m["nodeID"]); !ok || !hostish(a) {
		return "no usable node id"
	} else if ip := net.ParseIP(a); ip != nil && ip.To4() == nil {
		// the node id and the F-SEID this UPF announces are IPv4: an IPv6 literal resolves to no IPv4 address
		return "node id is an IPv6 literal (resolves to no IPv4 address)"
	} else if strings.HasSuffix(strings.TrimSuffix(a, "."), ".invalid") {
		return "node id is a name under .invalid, which never resolves (RFC 6761)"
	}
	rt, ok := scalarText(p.m["retransTimeout"])
	if !ok {
		return "no retransmission timeout"
	}
	if dur, err := time.ParseDuration(rt); err == nil {
		if dur == 0 {
			return "zero retransmission timeout"
		}
	} else if n, err := strconv.ParseInt(rt, 10, 64); err == nil {
		if n == 0 {
			return "zero retransmission timeout"
		}
	} else if _, err := strconv.ParseFloat(rt, 64); err == nil {
		// a unit-less fraction: YAML hands it over as a number; the statement does not say (either)
	} else {
		return "retransmission timeout is not a duration"
	}
	g := d.get([]string{"gtpu"})
	if g == nil || g.kind != "map" {
		return "no gtpu section"
	}
	if f, ok := scalarText(g.m["forwarder"]); !ok || f != "gtp5g" {
		return "forwarder is not gtp5g"
	}
	if il := g.m["ifList"]; il != nil {
		if il.kind == "list" {
			for i, e := range il.l {
				if e.kind != "map" {
					return fmt.Sprintf("interface entry %d is not a mapping", i)
				}
				if a, ok := scalarText(e.m["addr"]); !ok || !hostish(a) {
					return fmt.Sprintf("interface entry %d without address", i)
				}
				if t, ok := scalarText(e.m["type"]); !ok || (t != "N3" && t != "N9") {
					return fmt.Sprintf("interface entry %d has type other than N3/N9", i)
				}
			}
		} else if il.kind == "map" {
			return "ifList is not a list"
		}
	}
	dl := d.get([]string{"dnnList"})
	if dl == nil || dl.kind != "list" || len(dl.l) == 0 {
		return "no DNN entries"
	}
	for i, e := range dl.l {
		if e.kind != "map" {
			return fmt.Sprintf("DNN entry %d is not a mapping", i)
		}
		if a, ok := scalarText(e.m["dnn"]); !ok || a == "" {
			return fmt.Sprintf("DNN entry %d without name", i)
		}
		c, ok := scalarText(e.m["cidr"])
		if !ok {
			return fmt.Sprintf("DNN entry %d without CIDR", i)
		}
		if _, _, err := net.ParseCIDR(c); err != nil {
			return fmt.Sprintf("DNN entry %d: %q is not a CIDR", i, c)
		}
	}
	lg := d.get([]string{"logger"})
	if lg == nil || lg.kind != "map" {
		return "no logger section"
	}
	lv, ok := scalarText(lg.m["level"])
	if !ok {
		return "no log level"
	}
	valid := false
	for _, x := range []string{"trace", "debug", "info", "warn", "error", "fatal", "panic"} {
		if lv == x {
			valid = true
		}
	}
	if !valid {
		return "log level outside the list"
	}
	return ""
}

// unchanged compares accepted values with the document's.
func unchanged(d *yn, c *factory.Config) string {
	str := func(path ...string) (string, bool) { return scalarText(d.get(path)) }
	if v, ok := str("pfcp", "addr"); ok && c.Pfcp.Addr != v {
		return fmt.Sprintf("pfcp.addr %q became %q", v, c.Pfcp.Addr)
	}
	if v, ok := str("pfcp", "nodeID"); ok && c.Pfcp.NodeID != v {
		return fmt.Sprintf("pfcp.nodeID %q became %q", v, c.Pfcp.NodeID)
	}
	if v, ok := str("pfcp", "retransTimeout"); ok {
		var want time.Duration
		if dur, err := time.ParseDuration(v); err == nil {
			want = dur
		} else if n, err := strconv.ParseInt(v, 10, 64); err == nil {
			want = time.Duration(n)
		}
		if want != 0 && c.Pfcp.RetransTimeout != want {
			return fmt.Sprintf("pfcp.retransTimeout %q became %v", v, c.Pfcp.RetransTimeout)
		}
	}
	if v, ok := str("pfcp", "maxRetrans"); ok {
		if n, err := strconv.Atoi(v); err == nil && int(c.Pfcp.MaxRetrans) != n {
			return fmt.Sprintf("pfcp.maxRetrans %q became %d", v, c.Pfcp.MaxRetrans)
		}
	}
	if il := d.get([]string{"gtpu", "ifList"}); il != nil && il.kind == "list" {
		if len(c.Gtpu.IfList) != len(il.l) {
			return fmt.Sprintf("ifList has %d entries, document %d", len(c.Gtpu.IfList), len(il.l))
		}
		for i, e := range il.l {
			if e.kind != "map" {
				continue
			}
			g := c.Gtpu.IfList[i]
			for k, got := range map[string]string{"addr": g.Addr, "type": g.Type, "name": g.Name, "ifname": g.IfName} {
				if v, ok := scalarText(e.m[k]); ok && v != got {
					return fmt.Sprintf("ifList[%d].%s %q became %q", i, k, v, got)
				}
			}
			if v, ok := scalarText(e.m["mtu"]); ok {
				if n, err := strconv.ParseUint(v, 10, 64); err == nil && uint64(g.MTU) != n {
					return fmt.Sprintf("ifList[%d].mtu %q became %d", i, v, g.MTU)
				}
			}
		}
	}
	if dl := d.get([]string{"dnnList"}); dl != nil && dl.kind == "list" {
		if len(c.DnnList) != len(dl.l) {
			return fmt.Sprintf("dnnList has %d entries, document %d", len(c.DnnList), len(dl.l))
		}
		for i, e := range dl.l {
			if e.kind != "map" {
				continue
			}
			g := c.DnnList[i]
			for k, got := range map[string]string{"dnn": g.Dnn, "cidr": g.Cidr, "natifname": g.NatIfName} {
				if v, ok := scalarText(e.m[k]); ok && v != got {
					return fmt.Sprintf("dnnList[%d].%s %q became %q", i, k, v, got)
				}
			}
		}
	}
	if v, ok := str("logger", "level"); ok && c.Logger.Level != v {
		return fmt.Sprintf("logger.level %q became %q", v, c.Logger.Level)
	}
	return ""
}

func runC20(res *vh.Result) {
	res.Rule = "ReadConfig on documents derived from a valid one: every node x {delete, empty, null, mistype to list/map/int/bool/string} and every leaf x " +
		"its out-of-range values (single faults, enumerated completely), then seeded subsets of 2-4 faults; violation = accepted although an independent, " +
		"deliberately broad predicate says invalid, or an accepted value differs from the document; plus module versions x.y.z in a box around both bounds " +
		"against the real checkVersion over a simulated kernel; non-trivial = mutated document or version other than the bounds; distinct = distinct YAML texts / version strings"
	res.Assumptions = []string{
		"direction checked: accepted => valid (rejections are never violations)",
		"treated as 'either': negative or fractional unit-less retransmission timeout, numeric-looking host names such as 256.1.1.1, a gtpu section without interface entries, host names that need DNS",
		"version window compared numerically component-wise: (0,9,5) <= v < (0,10,0)",
	}
	dir, err := os.MkdirTemp("", "vc20")
	if err != nil {
		res.Inconc(err.Error())
		return
	}
	defer os.RemoveAll(dir)
	base := baseDoc()
	var paths [][]string
	base.paths(nil, &paths)
	var singles [][]c20Mut
	for _, p := range paths {
		ps := strings.Join(p, "/")
		leaf := p[len(p)-1]
		for _, k := range []string{"delete", "empty", "null", "to-list", "to-map", "to-int", "to-bool", "to-string"} {
			singles = append(singles, []c20Mut{{Path: ps, Kind: k}})
		}
		if base.get(p).kind == "scalar" {
			for _, v := range c20Bad[leaf] {
				singles = append(singles, []c20Mut{{Path: ps, Kind: "value", Val: v}})
			}
		}
	}
	nmulti := vh.Tiered(300, 400000)
	// versions
	var versions []string
	for x := 0; x <= 1; x++ {
		for y := 0; y <= 12; y++ {
			for z := 0; z <= 12; z++ {
				versions = append(versions, fmt.Sprintf("%d.%d.%d", x, y, z))
			}
		}
	}
	versions = append(versions, "0.9.100", "0.9.99999", "0.10.100", "0.90.5", "0.09.5", "00.9.5", "0.9.05", "9.5", "0.9", "0.10", "1", "0",
		"0.9.5.0", "0.9.5.1", "0.9.4.9", "0.10.0.0", "0.9.2147483647", "10.9.5", "0.9.5.0.0", "", "abc", "0.9.x", "0.9.5 ", ".9.5", "0..5")
	if vh.Thorough() {
		for i := 0; i < 2500; i++ {
			r := vh.NewRng(vh.O.Seed, 0xc20, uint64(i))
			versions = append(versions, fmt.Sprintf("%d.%d.%d", r.Intn(3), r.Intn(30), r.Intn(300)))
		}
	}
	total := 1 + len(singles) + nmulti + len(versions)
	res.Exhaustive = false
	res.Cases(total, func(i int, rng *vh.Rng) {
		if i >= 1+len(singles)+nmulti {
			c20Version(res, i, versions[i-1-len(singles)-nmulti])
			return
		}
		d := base.clone()
		var muts []c20Mut
		switch {
		case i == 0:
		case i <= len(singles):
			muts = singles[i-1]
		default:
			n := rng.Range(2, 4)
			for k := 0; k < n; k++ {
				muts = append(muts, singles[rng.Intn(len(singles))][0])
			}
		}
		var applied []c20Mut
		for _, m := range muts {
			if applyMut(d, m) {
				applied = append(applied, m)
			}
		}
		text := d.yaml()
		f := filepath.Join(dir, fmt.Sprintf("c%d.yaml", vh.O.Worker))
		os.WriteFile(f, []byte(text), 0o644)
		cfg, err := factory.ReadConfig(f)
		sig := ""
		if len(applied) > 0 {
			sig = vh.Sig(text)
		}
		res.Eval(sig)
		if i == 0 {
			if err != nil {
				res.Violate(i, "C20:valid-config-rejected", fmt.Sprintf("the valid base configuration is rejected: %v", err), text)
			}
			res.Sample(map[string]interface{}{"mutations": []c20Mut{}, "accepted": err == nil, "yaml": text})
			return
		}
		if err != nil {
			res.Count("rejected", 1)
			return
		}
		res.Count("accepted", 1)
		if i == 3 || i == len(singles)+1 {
			res.Sample(map[string]interface{}{"mutations": applied, "accepted": true, "yaml": text})
		}
		if why := predicate(d); why != "" {
			res.Violate(i, "C20:invalid-accepted:"+sigWord(why), fmt.Sprintf("accepted although invalid (%s); mutations %s", why, vh.J(applied)),
				map[string]interface{}{"mutations": applied, "yaml": text})
			return
		}
		if cfg == nil || cfg.Pfcp == nil || cfg.Gtpu == nil || cfg.Logger == nil {
			res.Violate(i, "C20:partial-config", "accepted configuration has nil sections", text)
			return
		}
		if why := unchanged(d, cfg); why != "" {
			res.Violate(i, "C20:value-changed", fmt.Sprintf("accepted value differs from the document: %s; mutations %s", why, vh.J(applied)),
				map[string]interface{}{"mutations": applied, "yaml": text})
		}
	}, nil)
}

func sigWord(why string) string {
	w := strings.Fields(why)
	sort.Strings(w[:0])
	s := strings.Join(w, "-")
	s = strings.Map(func(r rune) rune {
		if r >= '0' && r <= '9' {
			return -1
		}
		return r
	}, s)
	if len(s) > 40 {
		s = s[:40]
	}
	return s
}

func numericTuple(v string) ([]int, bool) {
	parts := strings.Split(v, ".")
	if len(parts) < 1 || len(parts) > 8 {
		return nil, false
	}
	var out []int
	for _, p := range parts {
		if p == "" || strings.TrimLeft(p, "0123456789") != "" {
			return nil, false
		}
		n, err := strconv.Atoi(p)
		if err != nil {
			return nil, false
		}
		out = append(out, n)
	}
	return out, true
}

func cmpTuple(a, b []int) int {
	for i := 0; i < len(a) || i < len(b); i++ {
		x, y := 0, 0
		if i < len(a) {
			x = a[i]
		}
		if i < len(b) {
			y = b[i]
		}
		if x != y {
			if x < y {
				return -1
			}
			return 1
		}
	}
	return 0
}

func c20Version(res *vh.Result, i int, v string) {
	k := vh.NewKernel()
	k.Version = v
	wg := &sync.WaitGroup{}
	d, err := vh.NewSimDriver(vh.SimDriverOpts{WG: wg, Kernel: k, NoPerio: true, NoBuff: true})
	started := err == nil
	if started {
		d.Close()
	}
	wg.Wait()
	sig := ""
	if v != "0.9.5" && v != "0.10.0" {
		sig = "ver:" + v
	}
	res.Eval(sig)
	res.Count("versions", 1)
	t, ok := numericTuple(v)
	in := ok && len(t) >= 2 && cmpTuple(t, []int{0, 9, 5}) >= 0 && cmpTuple(t, []int{0, 10, 0}) < 0
	leadingZero := false
	for _, p := range strings.Split(v, ".") {
		if len(p) > 1 && p[0] == '0' {
			leadingZero = true
		}
	}
	if leadingZero || (ok && len(t) > 3) || (ok && len(t) < 3) {
		// forms the statement does not fix (leading zeros, other than three components): only "started outside the numeric window" alarms
		if started && ok && !in {
			res.Violate(i, "C20:version-outside-window-started", fmt.Sprintf("forwarder started against gtp5g %q", v), v)
		}
		return
	}
	if started && !in {
		res.Violate(i, "C20:version-outside-window-started", fmt.Sprintf("forwarder started against gtp5g version %q, outside 0.9.5 <= v < 0.10.0", v), v)
	}
	if !started && in {
		res.Violate(i, "C20:version-inside-window-refused", fmt.Sprintf("forwarder refused gtp5g version %q (%v), inside 0.9.5 <= v < 0.10.0", v, err), v)
	}
	if i%97 == 0 {
		res.Sample(map[string]interface{}{"gtp5g_version": v, "started": started})
	}
}
