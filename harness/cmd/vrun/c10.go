package main

import (
	"fmt"
	"syscall"
	"time"

	"github.com/free5gc/go-upf/internal/verif/vh"
)

func init() { checks["c10"] = runC10 }

type c10URR struct {
	Method uint8  `json:"method"`
	MNOP   bool   `json:"mnop"`
	Perio  bool   `json:"perio"`
	Period uint32 `json:"period"`
	// zombie: a Remove URR for it failed in the data plane - it lives on there and stays known to the session
	zombie bool
}

type c10Sess struct {
	smf    int
	cp, up uint64
	alive  bool
	urr    map[uint32]*c10URR
	pdr    map[uint64][]uint32
}

type c10Op struct {
	K     string   `json:"k"`
	Sess  int      `json:"sess"`
	URRs  []uint32 `json:"urrs,omitempty"`
	SEIDs []string `json:"seids,omitempty"`
	Trigs []uint32 `json:"trigs,omitempty"`
	Per   uint32   `json:"period,omitempty"`
	Rule  *vh.Rule `json:"rule,omitempty"`
	PDR   uint64   `json:"pdr,omitempty"`
	Fail  bool     `json:"fail,omitempty"` // the kernel refuses the DEL_URR of this step
}

// usage-report trigger bit with the same name as reporting-trigger bit b
var sameName = map[int]int{0: 0, 1: 1, 2: 2, 3: 3, 4: 4, 5: 5, 6: 6, 7: 10, 8: 8, 9: 9, 10: 13, 11: 14, 12: 15, 13: 16, 14: 18, 15: 19, 17: 21}

const ntpOff = 2208988800

func runC10(res *vh.Result) {
	res.Rule = "full stack (real server, real gtp5g driver, simulated kernel): sessions with URRs over all measurement-method x MNOP combinations; kernel reports " +
		"(multicast REPORT with 1..5 reports for live/ended/unknown sessions and known/unknown URRs, every single-cause trigger; periodic ticks; query / update / " +
		"remove / PDR-dissociation / deletion results) carry unique values; every Usage Report IE seen at an SMF is mapped back to its kernel report and compared " +
		"field by field; non-trivial = at least 3 kernel reports issued; distinct = distinct operation sequences"
	res.Assumptions = []string{
		"simulated kernel: DEL_URR / GET_REPORT / GET_MULTI_REPORTS answer with one report per existing URR; update answers with a report in half of the cases",
		"trigger of Update URR results is not asserted; REEMR may map to nothing or EMRRE",
		"report identity = start time (10 s apart per serial) or total volume; both derive from the kernel's report serial",
	}
	ncases := vh.Tiered(1200, 80000)
	// in addition, PFCP-level histories (model data plane, injected reports, take-over of a session by a new node id,
	// re-association, CP-SEIDs colliding across peers): every Session Report Request must arrive at the SMF that owns
	// the session at that moment, addressed with the peer's SEID
	nhist := vh.Tiered(600, 40000)
	histProfile := vh.GenProfile{MinOps: 10, MaxOps: 30, MaxNodes: 3, MaxSess: 6, Negative: 1, Reports: 12, RuleChurn: 4, Reassoc: 2, Takeover: true, NoDupCreate: true}
	rn := &vh.Runner{}
	res.Cases(ncases+nhist, func(ci int, rng *vh.Rng) {
		if ci >= ncases {
			h := vh.Generate(rng, histProfile)
			tr := rn.Run(h, nil)
			if faultCrash(res, ci, "C10", h, nil, tr) {
				res.Eval("")
				return
			}
			an := vh.Analyze(tr)
			reportFindings(res, ci, "C10", h, nil, an, tr)
			reps := 0
			for _, st := range tr.Steps {
				reps += len(st.Reports)
			}
			res.Count("history_report_requests", int64(reps))
			sig := ""
			if reps >= 2 {
				sig = vh.Sig(abstract(tr))
			}
			res.Eval(sig)
			return
		}
		k := vh.NewKernel()
		k.UpdReport = rng.Bool()
		fs, err := vh.StartFull(vh.FullOpts{SMFs: 2, Kernel: k})
		if err != nil {
			res.Inconc("start: " + err.Error())
			return
		}
		var ops []c10Op
		defer func() {
			if err := fs.Stop(); err != nil {
				res.Inconc("stop: " + err.Error())
			}
			if f := vh.TakeFatals(); len(f) > 0 {
				res.Violate(ci, "C10:"+vh.FaultSig(f[0]), "fatal while processing reports", map[string]interface{}{"ops": ops, "fatal": f[0]})
			}
		}()
		viol := func(sig, desc string) {
			res.Violate(ci, "C10:"+sig, fmt.Sprintf("op %d (%s): %s", len(ops)-1, ops[len(ops)-1].K, desc), map[string]interface{}{"ops": ops})
		}
		var sess []*c10Sess
		byUP := func(up uint64) *c10Sess {
			for _, s := range sess {
				if s.alive && s.up == up {
					return s
				}
			}
			return nil
		}
		for _, s := range fs.SMFs {
			s := s
			s.SetOnReport(func(d *vh.Datagram) vh.ReportAction { return vh.ReportAction{SEID: 1} })
			if err := fs.Associate(s); err != nil {
				res.Inconc("associate: " + err.Error())
				return
			}
		}
		mkURR := func(id uint32) (vh.Rule, *c10URR) {
			u := &c10URR{Method: uint8(1 + rng.Intn(7)), MNOP: rng.Bool(), Perio: rng.Chance(1, 3)}
			r := vh.Rule{Kind: "URR", ID: uint64(id), Method: u.Method, MNOP: u.MNOP, Trig: 2}
			if u.Perio {
				u.Period = uint32(3600 * (1 + rng.Intn(2)))
				r.Trig, r.Period = 3, u.Period
			}
			return r, u
		}
		nsess := rng.Range(1, 4)
		for i := 0; i < nsess; i++ {
			smf := rng.Intn(2)
			s := &c10Sess{smf: smf, cp: uint64(0x100 + i), alive: true, urr: map[uint32]*c10URR{}, pdr: map[uint64][]uint32{}}
			var rules []vh.Rule
			for id := uint32(1); id <= uint32(rng.Range(1, 4)); id++ {
				r, u := mkURR(id)
				rules = append(rules, r)
				s.urr[id] = u
			}
			rules = append(rules, vh.Rule{Kind: "FAR", ID: 1, Action: 2})
			for p := uint64(1); p <= uint64(rng.Range(1, 2)); p++ {
				var l []uint32
				for id := range s.urr {
					if rng.Bool() {
						l = append(l, id)
					}
				}
				rules = append(rules, vh.Rule{Kind: "PDR", ID: p, FAR: 1, URRs: l})
				s.pdr[p] = l
			}
			up, _, err := fs.Establish(fs.SMFs[smf], s.cp, rules)
			if err != nil {
				res.Inconc("establish: " + err.Error())
				return
			}
			s.up = up
			sess = append(sess, s)
		}
		repSeen := make([]int, len(fs.SMFs))
		totalIssued := 0
		nops := rng.Range(6, 25)
		for n := 0; n < nops; n++ {
			var live []*c10Sess
			for _, s := range sess {
				if s.alive {
					live = append(live, s)
				}
			}
			if len(live) == 0 {
				break
			}
			s := live[rng.Intn(len(live))]
			si := 0
			for i, x := range sess {
				if x == s {
					si = i
				}
			}
			if err := fs.Quiesce(); err != nil {
				res.Inconc("quiesce: " + err.Error())
				return
			}
			k.TakeLog()
			for i, m := range fs.SMFs {
				m.Take()
				repSeen[i] = len(m.ReportsSnapshot())
			}
			op := c10Op{Sess: si}
			var rsp *vh.Datagram
			var mcast []*vh.KReport
			expectCarrier := map[uint64]string{} // serial -> "srr" / "rsp"
			expectTrig := map[uint64]int64{}     // serial -> exact usage trigger word, -1 = not asserted, -2 = REEMR
			smf := fs.SMFs[s.smf]
			modify := func(ies ...*vh.IE) {
				seq := smf.NextSeq()
				d, err := fs.Request(smf, 0, vh.BuildMsg(vh.MModReq, &s.up, seq, ies...), seq, true)
				if err != nil {
					res.Inconc("request: " + err.Error())
				}
				rsp = d
			}
			pickURR := func() uint32 {
				if rng.Chance(1, 5) {
					return uint32(50 + rng.Intn(3)) // unknown to the session
				}
				return uint32(1 + rng.Intn(4))
			}
			switch r := rng.Intn(12); {
			case r < 4:
				op.K = "mcast"
				var keys []vh.RuleKey
				for j := 0; j < rng.Range(1, 5); j++ {
					seid := live[rng.Intn(len(live))].up
					switch rng.Intn(8) {
					case 0:
						seid = 0x7777 // never issued
					case 1:
						for _, x := range sess {
							if !x.alive {
								seid = x.up // ended (may have been re-issued: then it is a live one again)
							}
						}
					}
					bit := rng.Intn(18)
					keys = append(keys, vh.RuleKey{Kind: "URR", SEID: seid, ID: uint64(pickURR())})
					op.Trigs = append(op.Trigs, 1<<uint(bit))
					op.URRs = append(op.URRs, uint32(keys[j].ID))
					op.SEIDs = append(op.SEIDs, fmt.Sprintf("%#x", seid))
				}
				body, reps := k.NewMulticastReport(keys, op.Trigs)
				mcast = reps
				ops = append(ops, op)
				fs.Multicast(body)
			case r < 6:
				op.K = "tick"
				var pers []uint32
				for _, x := range live {
					for _, u := range x.urr {
						if u.Perio {
							pers = append(pers, u.Period)
						}
					}
				}
				if len(pers) == 0 {
					continue
				}
				op.Per = pers[rng.Intn(len(pers))]
				ops = append(ops, op)
				fs.D.G.VerifPerio().VerifInjectTick(time.Duration(op.Per) * time.Second)
			case r < 8:
				op.K = "query"
				var ies []*vh.IE
				for j := 0; j < rng.Range(1, 3); j++ {
					u := pickURR()
					op.URRs = append(op.URRs, u)
					ies = append(ies, vh.Grp(vh.TQueryURR, vh.URRID(u)))
				}
				ops = append(ops, op)
				modify(ies...)
			case r < 9:
				op.K = "rmurr"
				u := pickURR()
				op.URRs = []uint32{u}
				op.Fail = rng.Chance(1, 3)
				ops = append(ops, op)
				if op.Fail {
					k.SetFailCmd(vh.KCmdDelURR, syscall.ENOMEM)
				}
				modify(vh.Rule{Kind: "URR", ID: uint64(u)}.RemoveIE())
				if op.Fail {
					fs.Quiesce()
					k.SetFailCmd(vh.KCmdDelURR, 0)
					res.Count("refused_urr_removals", 1)
				}
			case r < 10:
				op.K = "updurr"
				u := pickURR()
				nr, nu := mkURR(u)
				nr.Trig, nr.Period = 0, 0
				nu.Perio = false
				// an Update URR carries only what changes: either IE may be absent and then keeps its value
				nr.NoMethod, nr.NoInfo = rng.Chance(1, 3), rng.Chance(1, 3)
				op.URRs = []uint32{u}
				op.Rule = &nr
				ops = append(ops, op)
				modify(nr.UpdateIE())
				if old := s.urr[u]; old != nil {
					if !nr.NoMethod {
						old.Method = nu.Method
					}
					if !nr.NoInfo {
						old.MNOP = nu.MNOP
					}
				}
			case r < 11:
				op.K = "rmpdr"
				if len(s.pdr) == 0 {
					continue
				}
				for p := range s.pdr {
					op.PDR = p
				}
				ops = append(ops, op)
				modify(vh.Rule{Kind: "PDR", ID: op.PDR}.RemoveIE())
			default:
				if rng.Bool() {
					op.K = "mkurr"
					id := uint32(1 + rng.Intn(5))
					if s.urr[id] != nil {
						continue
					}
					r, u := mkURR(id)
					op.Rule = &r
					op.URRs = []uint32{id}
					ops = append(ops, op)
					modify(r.CreateIE())
					s.urr[id] = u
				} else {
					op.K = "del"
					ops = append(ops, op)
					seq := smf.NextSeq()
					d, err := fs.Request(smf, 0, vh.BuildMsg(vh.MDelReq, &s.up, seq), seq, true)
					if err != nil {
						res.Inconc("request: " + err.Error())
					}
					rsp = d
				}
			}
			if err := fs.Quiesce(); err != nil {
				res.Inconc("quiesce: " + err.Error())
				return
			}
			for _, m := range fs.SMFs {
				m.Pump()
			}
			if err := fs.Env.Barrier(); err != nil {
				res.Inconc("barrier: " + err.Error())
				return
			}
			// ---- kernel reports issued during the step ----
			type issued struct {
				rep *vh.KReport
			}
			var iss []*vh.KReport
			for _, r := range mcast {
				iss = append(iss, r)
				expectCarrier[r.Serial] = "srr"
				bit := 0
				for b := 0; b < 18; b++ {
					if r.Trigger == 1<<uint(b) {
						bit = b
					}
				}
				if ub, ok := sameName[bit]; ok {
					expectTrig[r.Serial] = int64(1) << uint(ub)
				} else {
					expectTrig[r.Serial] = -2
				}
			}
			for _, l := range k.TakeLog() {
				for _, sn := range l.Serials {
					r := k.Lookup(sn)
					if r == nil || r.Key.SEID == vh.SentSEID {
						continue
					}
					iss = append(iss, r)
					switch r.Origin {
					case "multi":
						expectCarrier[sn], expectTrig[sn] = "srr", 1
					case "query":
						expectCarrier[sn] = "rsp"
						if op.K == "query" {
							expectTrig[sn] = 1 << 7 // IMMER
						} else {
							expectTrig[sn] = 1 << 11 // dissociation: TERMR
						}
					case "remove":
						expectCarrier[sn], expectTrig[sn] = "rsp", 1<<11
					case "update":
						expectCarrier[sn], expectTrig[sn] = "rsp", -1
					}
				}
			}
			totalIssued += len(iss)
			res.Count("kernel_reports", int64(len(iss)))
			// ---- observed usage report IEs ----
			type obs struct {
				u       vh.URep
				carrier string
				smf     int
				seid    uint64
				used    bool
			}
			var seen []*obs
			for i, m := range fs.SMFs {
				rs := m.ReportsSnapshot()
				for _, d := range rs[repSeen[i]:] {
					if d.M == nil {
						viol("undecodable-report-request", "Session Report Request not decodable")
						continue
					}
					if d.Sock != 0 {
						viol("report-wrong-socket", "Session Report Request arrived at a secondary socket")
					}
					for _, e := range d.M.FindAll(vh.TUsaRepReq) {
						seen = append(seen, &obs{u: vh.ParseURep(e), carrier: "srr", smf: i, seid: d.M.SEID})
					}
				}
				repSeen[i] = len(rs)
			}
			if rsp != nil && rsp.M != nil {
				for _, e := range append(rsp.M.FindAll(vh.TUsaRepMod), rsp.M.FindAll(vh.TUsaRepDel)...) {
					seen = append(seen, &obs{u: vh.ParseURep(e), carrier: "rsp", smf: s.smf, seid: rsp.M.SEID})
				}
			}
			res.Count("usage_report_ies", int64(len(seen)))
			// ---- model effects that decide "known" are evaluated against the state when the report was produced ----
			for _, r := range iss {
				owner := byUP(r.Key.SEID)
				var u *c10URR
				if owner != nil {
					u = owner.urr[uint32(r.Key.ID)]
				}
				known := owner != nil && u != nil
				st, en := vh.ReportTimes(r.Serial)
				var match *obs
				for _, o := range seen {
					if o.used || o.u.URRID != uint32(r.Key.ID) {
						continue
					}
					if o.u.HasStart {
						if int64(o.u.Start)-ntpOff == st {
							match = o
							break
						}
						continue
					}
					if o.u.HasVol && o.u.VolFlags&1 != 0 {
						if o.u.Vol[0] == r.Serial*1000+1 {
							match = o
							break
						}
						continue
					}
					// no time, no volume: identify by URR and carrier only
					if known && o.carrier == expectCarrier[r.Serial] && o.seid == owner.cp {
						match = o
						break
					}
				}
				if known && u.zombie {
					res.Count("reports_for_urrs_whose_removal_was_refused", 1)
				}
				if !known {
					if match != nil {
						viol("report-for-unknown", fmt.Sprintf("kernel report %d for session %#x URR %d (unknown session or URR) was forwarded", r.Serial, r.Key.SEID, r.Key.ID))
					}
					continue
				}
				if match == nil {
					viol("report-lost-"+r.Origin, fmt.Sprintf("kernel report %d (%s) for URR %d of session %#x did not reach the control plane (batch of %d)", r.Serial, r.Origin, r.Key.ID, r.Key.SEID, len(iss)))
					continue
				}
				match.used = true
				o := match
				if o.carrier != expectCarrier[r.Serial] {
					viol("report-carrier", fmt.Sprintf("kernel report %d (%s) travelled in %s, expected %s", r.Serial, r.Origin, o.carrier, expectCarrier[r.Serial]))
				}
				if o.smf != owner.smf {
					viol("report-wrong-node", fmt.Sprintf("report for session %#x delivered to SMF %d, owner is SMF %d", owner.up, o.smf, owner.smf))
				}
				if o.seid != owner.cp {
					viol("report-seid", fmt.Sprintf("report for session %#x carried SEID %#x, the peer's SEID is %#x", owner.up, o.seid, owner.cp))
				}
				switch want := expectTrig[r.Serial]; {
				case want == -1:
				case want == -2:
					if o.u.Trig != 0 && o.u.Trig != 1<<20 {
						viol("report-trigger", fmt.Sprintf("cause REEMR mapped to usage trigger %#x", o.u.Trig))
					}
				case uint32(want) != o.u.Trig:
					viol("report-trigger-"+r.Origin, fmt.Sprintf("kernel report %d (%s, cause word %#x): usage report trigger %#x, want %#x", r.Serial, r.Origin, r.Trigger, o.u.Trig, want))
				}
				noTimes := o.u.Trig&(1<<4|1<<5|1<<14) != 0
				if !noTimes {
					if !o.u.HasStart || !o.u.HasEnd || int64(o.u.Start)-ntpOff != st || int64(o.u.End)-ntpOff != en {
						viol("report-times", fmt.Sprintf("kernel report %d: start/end %d/%d (NTP), measured %d/%d (Unix)", r.Serial, o.u.Start, o.u.End, st, en))
					}
				}
				volum, durat := u.Method&2 != 0, u.Method&1 != 0
				if o.u.HasVol != volum {
					viol("volume-ie-presence", fmt.Sprintf("URR %d method %#x: volume measurement present=%v", r.Key.ID, u.Method, o.u.HasVol))
				} else if volum {
					wf := uint8(0x07)
					if u.MNOP {
						wf = 0x3f
					}
					if o.u.VolFlags != wf {
						viol("volume-flags", fmt.Sprintf("URR %d MNOP=%v: volume measurement flags %#x, want %#x", r.Key.ID, u.MNOP, o.u.VolFlags, wf))
					}
					for b := 0; b < 6; b++ {
						if wf&(1<<uint(b)) != 0 && o.u.VolFlags&(1<<uint(b)) != 0 && o.u.Vol[b] != r.Serial*1000+uint64(b+1) {
							viol("volume-value", fmt.Sprintf("kernel report %d field %d: %d on the wire, measured %d", r.Serial, b, o.u.Vol[b], r.Serial*1000+uint64(b+1)))
						}
					}
				}
				if o.u.HasDur != durat {
					viol("duration-ie-presence", fmt.Sprintf("URR %d method %#x: duration measurement present=%v", r.Key.ID, u.Method, o.u.HasDur))
				}
			}
			for _, o := range seen {
				if !o.used {
					viol("report-without-origin", fmt.Sprintf("usage report (URR %d, trigger %#x, carrier %s) matches no kernel report of this step", o.u.URRID, o.u.Trig, o.carrier))
				}
			}
			// ---- model update ----
			switch op.K {
			case "rmurr":
				if op.Fail {
					if u := s.urr[op.URRs[0]]; u != nil {
						u.zombie = true
					}
				} else {
					delete(s.urr, op.URRs[0])
				}
			case "rmpdr":
				delete(s.pdr, op.PDR)
			case "del":
				s.alive = false
			}
		}
		sig := ""
		if totalIssued >= 3 {
			sig = vh.Sig(vh.J(ops))
		}
		res.Eval(sig)
		res.Count("ops", int64(len(ops)))
		if ci < 2 {
			res.Sample(map[string]interface{}{"sessions": nsess, "ops": ops})
		}
	}, nil)
}
