package main

import (
	"fmt"
	"net"
	"reflect"
	"strings"

	"github.com/free5gc/go-upf/internal/forwarder"
	"github.com/free5gc/go-upf/internal/pfcp"
	"github.com/free5gc/go-upf/internal/report"
	"github.com/free5gc/go-upf/internal/verif/vh"
)

func init() { checks["c07"] = runC07 }

type c07Dgram struct {
	Template string   `json:"template"`
	From     string   `json:"from"` // A A' B
	Muts     []string `json:"mutations"`
	Hex      string   `json:"hex"`
}

// hostileFlow: in hostile messages half of the generated flow descriptions are well-formed IEs whose text is not a
// valid description (cut after a token, tokens missing / doubled / out of range, arbitrary bytes)
var hostileFlow = false

func genFlow(r *vh.Rng) string {
	if hostileFlow && r.Bool() {
		return vh.GenJunkFlow(r)
	}
	return vh.GenFlow(r)
}

func richRules(r *vh.Rng) []*vh.IE {
	bid := uint32(7)
	var ies []*vh.IE
	ies = append(ies,
		vh.Grp(vh.TCreateFAR, vh.FARID(1), vh.ApplyAction(2, false),
			vh.Grp(vh.TFwdParams, vh.DstIntf(0), vh.NetInst("n3"), vh.OHC(0x0100, 0x1234, net.IPv4(10, 0, 0, 9), 0), vh.FwdPolicy("pol"))),
		vh.Grp(vh.TCreateFAR, vh.FARID(2), vh.ApplyAction(0xc, true), vh.BARID(1)),
		vh.Grp(vh.TCreateQER, vh.QERID(1), vh.Gate(0), vh.MBR(1000, 2000), vh.GBR(10, 20), vh.QFI(9), vh.RQI(1), vh.PPI(3), vh.QERCorr(5)),
		vh.Grp(vh.TCreateURR, vh.URRID(1), vh.MeasMethod(2), vh.RepTrig(3, 3), vh.MeasPeriod(7200), vh.MeasInfo(0x10),
			vh.VolThresh(7, 1, 2, 3), vh.VolQuota(1, 9, 0, 0)),
		vh.Grp(vh.TCreateURR, vh.URRID(2), vh.MeasMethod(1), vh.RepTrig(0x100, 2)),
		vh.Grp(vh.TCreateBAR, vh.BARID(1), vh.DDNDelay(4), vh.SuggBufCnt(8)),
		vh.Grp(vh.TCreatePDR, vh.PDRID(1), vh.Precedence(255),
			vh.Grp(vh.TPDI, vh.SrcIntf(0), vh.FTEIDv4(0x11, net.IPv4(10, 1, 1, 1)), vh.NetInst("internet"), vh.UEIPv4(net.IPv4(10, 60, 0, 1), false),
				vh.SDFFilter("permit out ip from 10.0.0.0/8 80,443-445 to assigned", &bid), vh.SDFFilter(genFlow(r), nil)),
			vh.OHR(0), vh.FARID(1), vh.QERID(1), vh.URRID(1), vh.URRID(2)),
		vh.Grp(vh.TCreatePDR, vh.PDRID(2), vh.Precedence(10),
			vh.Grp(vh.TPDI, vh.SrcIntf(1), vh.UEIPv4(net.IPv4(10, 60, 0, 1), true), vh.SDFFilter("permit out 17 from any to assigned 5000-6000", nil)),
			vh.FARID(2), vh.QERID(1), vh.URRID(1)),
	)
	return ies
}

func modIEs(r *vh.Rng) []*vh.IE {
	bid := uint32(9)
	return []*vh.IE{
		vh.Grp(vh.TCreateFAR, vh.FARID(3), vh.ApplyAction(1, false)),
		vh.Grp(vh.TCreateURR, vh.URRID(3), vh.MeasMethod(6), vh.RepTrig(2, 3), vh.VolThresh(1, 5, 0, 0)),
		vh.Grp(vh.TRemoveQER, vh.QERID(1)),
		vh.Grp(vh.TRemoveURR, vh.URRID(2)),
		vh.Grp(vh.TRemovePDR, vh.PDRID(2)),
		vh.Grp(vh.TRemoveBAR, vh.BARID(1)),
		vh.Grp(vh.TUpdateFAR, vh.FARID(1), vh.ApplyAction(4, true),
			vh.Grp(vh.TUpdFwdParam, vh.DstIntf(0), vh.OHC(0x0100, 0x999, net.IPv4(10, 0, 0, 7), 0), vh.SMReqFlags(1))),
		vh.Grp(vh.TUpdateQER, vh.QERID(1), vh.Gate(5), vh.MBR(1, 2), vh.QFI(5)),
		vh.Grp(vh.TUpdateURR, vh.URRID(1), vh.MeasMethod(3), vh.RepTrig(2, 3), vh.MeasPeriod(3600), vh.VolQuota(7, 1, 2, 3)),
		vh.Grp(vh.TUpdateBAR, vh.BARID(1), vh.DDNDelay(1)),
		vh.Grp(vh.TUpdatePDR, vh.PDRID(1), vh.Precedence(1), vh.Grp(vh.TPDI, vh.SrcIntf(0), vh.SDFFilter(genFlow(r), &bid)), vh.FARID(3), vh.URRID(3)),
		vh.Grp(vh.TQueryURR, vh.URRID(1)),
	}
}

func runC07(res *vh.Result) {
	res.Rule = "valid prefix (two associations, bystander sessions, 1-2 target sessions with the full rule set incl. SDF filters, optional deletion, optional " +
		"outstanding Session Report Request) followed by 1-5 hostile datagrams: structure-aware mutations (1-3 stacked) of valid messages of every dispatched and " +
		"several undispatched types, sent from the associated peer, its second socket and an unknown peer; half of the cases run on the no-op driver, half on the real " +
		"gtp5g driver over the simulated kernel; monitors: logrus Fatal hook, process exit, heartbeat answer, bystander-session snapshot and data-plane rules; " +
		"non-trivial = at least one datagram differs from its template; distinct = distinct hostile datagram sequences"
	res.Assumptions = []string{
		"bystander sessions belong to a third node that no hostile datagram names (SEID / node id screened before sending)",
		"a datagram that makes the process exit is attributed through the journal written before every send",
	}
	ncases := vh.Tiered(5000, 400000)
	res.Cases(ncases, func(ci int, rng *vh.Rng) {
		realDrv := ci%2 == 1
		var env *vh.Env
		var fs *vh.FullStack
		var tap *vh.Tap
		var kernel *vh.Kernel
		var err error
		if realDrv {
			fs, err = vh.StartFull(vh.FullOpts{MaxRetrans: 1})
			if err != nil {
				res.Inconc("start: " + err.Error())
				return
			}
			env, tap, kernel = fs.Env, fs.Tap, fs.D.K
		} else {
			tap = &vh.Tap{Inner: forwarder.Empty{}}
			vh.TakeFatals()
			env, err = vh.StartEnv(tap, vh.EnvOpts{MaxRetrans: 1})
			if err != nil {
				res.Inconc("start: " + err.Error())
				return
			}
		}
		var smfs []*vh.SMF
		var seq []c07Dgram
		stopped := false
		stop := func() {
			if stopped {
				return
			}
			stopped = true
			for _, s := range smfs {
				s.Close()
			}
			if fs != nil {
				fs.Stop()
			} else {
				env.Stop()
			}
		}
		defer stop()
		for n := 0; n < 3; n++ { // 0 = A (target), 1 = B (never associated), 2 = C (bystander)
			s, err := vh.NewSMF(n+2, env.UPF, 1)
			if err != nil {
				res.Inconc("smf: " + err.Error())
				return
			}
			smfs = append(smfs, s)
		}
		A, B, C := smfs[0], smfs[1], smfs[2]
		req := func(s *vh.SMF, msg []byte, sq uint32) *vh.Datagram {
			s.SendFrom(0, msg)
			if env.Barrier() != nil {
				return nil
			}
			return s.WaitRsp(sq, 0)
		}
		est := func(s *vh.SMF, cp uint64) uint64 {
			sq := s.NextSeq()
			zero := uint64(0)
			ies := append([]*vh.IE{vh.NodeIDv4(s.IP), vh.FSEIDv4(cp, s.IP)}, richRules(rng)...)
			d := req(s, vh.BuildMsg(vh.MEstReq, &zero, sq, ies...), sq)
			if d == nil || d.M == nil || d.M.Find(vh.TFSEID) == nil {
				return 0
			}
			var v uint64
			for _, b := range d.M.Find(vh.TFSEID).V[1:9] {
				v = v<<8 | uint64(b)
			}
			return v
		}
		for _, s := range []*vh.SMF{A, C} {
			sq := s.NextSeq()
			if req(s, vh.BuildMsg(vh.MAssocReq, nil, sq, vh.NodeIDv4(s.IP), vh.RecoveryTS(1)), sq) == nil {
				res.Inconc("prefix association failed")
				return
			}
		}
		var cSess, aSess []uint64
		for i := 0; i < rng.Range(1, 2); i++ {
			if v := est(C, uint64(0xc0+i)); v != 0 {
				cSess = append(cSess, v)
			}
		}
		for i := 0; i < rng.Range(1, 3); i++ {
			if v := est(A, uint64(0xa0+i)); v != 0 {
				aSess = append(aSess, v)
			}
		}
		if len(cSess) == 0 || len(aSess) == 0 {
			res.Inconc("prefix establishment failed")
			return
		}
		if rng.Chance(1, 3) && len(aSess) > 1 {
			sq := A.NextSeq()
			req(A, vh.BuildMsg(vh.MDelReq, &aSess[0], sq), sq)
			aSess = aSess[1:]
		}
		// optional outstanding UPF-initiated request towards A
		outSeq := uint32(0xffffffff)
		if rng.Bool() {
			r := vh.UniqueUSAR(1, 5)
			r.USARTrigger.Flags = report.USAR_TRIG_VOLTH
			env.Srv.NotifySessReport(report.SessReport{SEID: aSess[len(aSess)-1], Reports: []report.Report{r}})
			env.Barrier()
			for _, d := range A.ReportsSnapshot() {
				if d.M != nil {
					outSeq = d.M.Seq
				}
			}
		}
		if vh.FatalCount() > 0 {
			res.Inconc("fatal during the valid prefix")
			return
		}
		// bystander state before the attack
		bystander := func() ([]*pfcp.VerifSess, map[vh.RuleKey]int) {
			sn := env.Srv.VerifSnapshot()
			var out []*pfcp.VerifSess
			for _, s := range sn.Slots {
				if s != nil {
					for _, c := range cSess {
						if s.LocalID == c {
							out = append(out, s)
						}
					}
				}
			}
			tbl := map[vh.RuleKey]int{}
			if kernel != nil {
				for k, g := range kernel.Table() {
					for _, c := range cSess {
						if k.SEID == c {
							tbl[k] = g
						}
					}
				}
			}
			return out, tbl
		}
		preS, preT := bystander()
		// the attacker's own other sessions are bystanders too, as long as no hostile datagram addresses them (header
		// SEID) or legitimately ends all sessions of the association (association set-up/update/release, session set
		// deletion, a report response that may match by CP-SEID)
		aOthers := map[uint64]bool{}
		for _, v := range aSess[:len(aSess)-1] {
			aOthers[v] = true
		}
		aSnap := func() map[uint64]*pfcp.VerifSess {
			out := map[uint64]*pfcp.VerifSess{}
			for _, s := range env.Srv.VerifSnapshot().Slots {
				if s != nil && aOthers[s.LocalID] {
					out[s.LocalID] = s
				}
			}
			return out
		}
		preA := aSnap()
		addressesA := func(b []byte) {
			if len(b) < 2 {
				return
			}
			switch b[1] {
			case vh.MAssocReq, vh.MAssocUpdReq, vh.MAssocRelReq, 14, vh.MRepRsp, vh.MEstReq:
				if b[1] != vh.MEstReq {
					aOthers = map[uint64]bool{}
				}
			}
			if len(b) >= 12 && b[0]&1 != 0 {
				var v uint64
				for _, x := range b[4:12] {
					v = v<<8 | uint64(x)
				}
				delete(aOthers, v)
			}
			// a session-level message carrying a Node ID IE (type 60) is a take-over: it renames the association all
			// sessions of the sender hang on (which of them move is not fixed by the statement)
			if b[1] != vh.MEstReq && strings.Contains(string(b), "\x00\x3c") {
				aOthers = map[uint64]bool{}
			}
		}
		isBystander := func(b []byte) bool {
			if len(b) >= 12 && b[0]&1 != 0 {
				var v uint64
				for _, x := range b[4:12] {
					v = v<<8 | uint64(x)
				}
				for _, c := range cSess {
					if v == c {
						return true
					}
				}
			}
			// an Association Setup Request naming the bystander's node id legitimately ends its sessions: not sent.
			// Any other message may name it (e.g. a take-over Node ID in a modification of somebody else's session).
			return len(b) > 1 && b[1] == vh.MAssocReq && strings.Contains(string(b), string(C.IP.To4()))
		}
		// ---- hostile sequence ----
		hostileFlow = true
		defer func() { hostileFlow = false }()
		target := aSess[len(aSess)-1]
		templates := func() (string, []byte) {
			zero := uint64(0)
			sq := uint32(0x300000 + rng.Intn(1000))
			switch rng.Intn(16) {
			case 0:
				return "heartbeat", vh.BuildMsg(vh.MHeartbeatReq, nil, sq, vh.RecoveryTS(9))
			case 1:
				return "association-setup", vh.BuildMsg(vh.MAssocReq, nil, sq, vh.NodeIDv4(A.IP), vh.RecoveryTS(9), vh.Raw(89, 0x01))
			case 2:
				return "association-setup-fqdn", vh.BuildMsg(vh.MAssocReq, nil, sq, vh.NodeIDFQDN("smf.example.org"), vh.RecoveryTS(9))
			case 3:
				return "association-update", vh.BuildMsg(vh.MAssocUpdReq, nil, sq, vh.NodeIDv4(A.IP))
			case 4:
				return "association-release", vh.BuildMsg(vh.MAssocRelReq, nil, sq, vh.NodeIDv4(A.IP))
			case 5, 6:
				// the CP's SEID is the CP's business: now and then it equals the UP SEID of another session of the sender
				cp := uint64(0xa9)
				if rng.Bool() {
					cp = aSess[0]
				}
				ies := append([]*vh.IE{vh.NodeIDv4(A.IP), vh.FSEIDv4(cp, A.IP)}, richRules(rng)...)
				return "establishment", vh.BuildMsg(vh.MEstReq, &zero, sq, ies...)
			case 7, 8:
				return "modification", vh.BuildMsg(vh.MModReq, &target, sq, modIEs(rng)...)
			case 9:
				// a take-over: the modification carries a Node ID - a fresh one, the sender's own, or the bystander's
				nid := [][]byte{{127, 99, 99, 99}, A.IP.To4(), C.IP.To4()}[rng.Intn(3)]
				ies := append([]*vh.IE{vh.NodeIDv4(nid)}, modIEs(rng)[:rng.Intn(4)]...)
				return "modification-with-node-id", vh.BuildMsg(vh.MModReq, &target, sq, ies...)
			case 10:
				return "deletion", vh.BuildMsg(vh.MDelReq, &target, sq)
			case 11:
				s := outSeq
				if s == 0xffffffff || rng.Chance(1, 4) {
					s = sq
				}
				seid := target
				if rng.Bool() {
					seid = 0
				}
				return "report-response", vh.BuildMsg(vh.MRepRsp, &seid, s, vh.Cause(vh.CauseAccepted))
			case 12:
				return "pfd-management", vh.BuildMsg(3, nil, sq, vh.Raw(58, 1, 2, 3))
			case 13:
				return "node-report", vh.BuildMsg(12, nil, sq, vh.NodeIDv4(A.IP), vh.Raw(101, 1))
			case 14:
				return "session-set-deletion", vh.BuildMsg(14, nil, sq, vh.NodeIDv4(A.IP))
			default:
				t := []uint8{2, 6, 8, 10, 11, 13, 15, 51, 53, 55, 56, 0, 99, 255}[rng.Intn(14)]
				if t >= 50 && t < 100 {
					return fmt.Sprintf("message-type-%d", t), vh.BuildMsg(t, &target, sq, vh.Cause(1), vh.NodeIDv4(A.IP))
				}
				return fmt.Sprintf("message-type-%d", t), vh.BuildMsg(t, nil, sq, vh.Cause(1), vh.NodeIDv4(A.IP), vh.RecoveryTS(3))
			}
		}
		nh := rng.Range(1, 5)
		changed := false
		for h := 0; h < nh; h++ {
			name, valid := templates()
			b := valid
			var muts []string
			nm := rng.Range(1, 3)
			if rng.Chance(1, 12) {
				nm = 0 // the valid message itself, in a hostile position
			}
			for m := 0; m < nm; m++ {
				var d string
				if len(b) == 0 {
					break
				}
				b, d = vh.Mutate(rng, b)
				muts = append(muts, d)
			}
			if isBystander(b) {
				continue
			}
			if string(b) != string(valid) {
				changed = true
			}
			addressesA(b)
			from := []string{"A", "A", "A'", "B"}[rng.Intn(4)]
			dg := c07Dgram{Template: name, From: from, Muts: muts, Hex: fmt.Sprintf("%x", b)}
			if len(dg.Hex) > 3000 {
				dg.Hex = dg.Hex[:3000] + "..."
			}
			seq = append(seq, dg)
			res.Journal(ci, vh.J(dg))
			switch from {
			case "A":
				A.Socks[0].WriteToUDP(b, env.UPF)
			case "A'":
				A.Socks[1].WriteToUDP(b, env.UPF)
			default:
				B.Socks[0].WriteToUDP(b, env.UPF)
			}
			res.Count("hostile_datagrams", 1)
			berr := env.Barrier()
			if fsx := vh.TakeFatals(); len(fsx) > 0 {
				res.Violate(ci, "C07:"+vh.FaultSig(fsx[0]), fmt.Sprintf("datagram %d (%s from %s, %v) took the control plane down (driver: %s)", h, name, from, muts, drvName(realDrv)),
					map[string]interface{}{"driver": drvName(realDrv), "sequence": seq, "fatal": fsx[0]})
				res.Eval(vh.Sig(vh.J(seq)))
				return
			}
			if berr != nil {
				sig := "C07:stopped-serving-after-" + name
				res.Violate(ci, sig, fmt.Sprintf("after datagram %d (%s from %s, %v) the UPF no longer answers a Heartbeat Request (%v)", h, name, from, muts, berr),
					map[string]interface{}{"driver": drvName(realDrv), "sequence": seq})
				res.Eval(vh.Sig(vh.J(seq)))
				return
			}
		}
		// liveness + bystanders intact
		if err := env.Heartbeat(); err != nil {
			res.Violate(ci, "C07:stopped-serving", "heartbeat unanswered after the sequence", map[string]interface{}{"sequence": seq})
		}
		postS, postT := bystander()
		if !reflect.DeepEqual(preS, postS) {
			res.Violate(ci, "C07:bystander-session-changed", fmt.Sprintf("a session no hostile datagram addressed changed: before %s after %s", vh.J(preS), vh.J(postS)),
				map[string]interface{}{"driver": drvName(realDrv), "sequence": seq})
		}
		if !reflect.DeepEqual(preT, postT) {
			res.Violate(ci, "C07:bystander-rules-changed", "data-plane rules of a session no hostile datagram addressed changed",
				map[string]interface{}{"driver": drvName(realDrv), "sequence": seq})
		}
		postA := aSnap()
		for id := range aOthers {
			if !reflect.DeepEqual(preA[id], postA[id]) {
				res.Violate(ci, "C07:unaddressed-session-of-the-sender-changed", fmt.Sprintf("session %#x of the sending peer, which no hostile datagram addressed, changed: before %s after %s",
					id, vh.J(preA[id]), vh.J(postA[id])), map[string]interface{}{"driver": drvName(realDrv), "sequence": seq})
			}
			res.Count("unaddressed_sessions_of_the_sender_checked", 1)
		}
		sig := ""
		if changed {
			sig = vh.Sig(vh.J(seq))
		}
		res.Eval(sig)
		res.Count("driver_calls", tap.NCalls)
		if ci < 4 {
			res.Sample(map[string]interface{}{"driver": drvName(realDrv), "sequence": seq})
		}
	}, nil)
}

func drvName(real bool) string {
	if real {
		return "gtp5g over simulated kernel"
	}
	return "no-op (forwarder.Empty)"
}
