package main

import (
	"bytes"
	"fmt"
	"sync"
	"time"

	"github.com/free5gc/go-gtp5gnl"
	"github.com/khirono/go-nl"

	"github.com/free5gc/go-upf/internal/gtpv1"
	"github.com/free5gc/go-upf/internal/report"
	"github.com/free5gc/go-upf/internal/verif/vh"
)

// c14Writer: the property is about what leaves the UPF, so besides the encoder the writer around it
// (Gtp5g.WritePacket: message assembly, buffer handling, the socket write) is driven with SEQUENCES of
// packets - lengths going up and down, with and without a QoS flow, changing TEIDs - and every datagram
// that arrives at a UDP listener is decoded by the independent decoder: the datagram must end where the
// length field says, carry exactly its own payload, and nothing of an earlier packet.
type c14Pkt struct {
	Len  int    `json:"payload_len"`
	QFI  int    `json:"qfi"` // -1: no QoS flow
	TEID uint32 `json:"teid"`
}

var c14w struct {
	once sync.Once
	d    *vh.SimDriver
	g    *vh.GNB
	col  *c14Collect
	err  error
}

// c14Collect stands where the PFCP server stands: it receives what the buffering listener decoded
type c14Collect struct {
	mu   sync.Mutex
	pkts [][]byte
}

func (c *c14Collect) NotifySessReport(sr report.SessReport) {
	c.mu.Lock()
	for _, r := range sr.Reports {
		if d, ok := r.(report.DLDReport); ok {
			c.pkts = append(c.pkts, d.BufPkt)
		}
	}
	c.mu.Unlock()
}
func (c *c14Collect) PopBufPkt(uint64, uint16) ([]byte, bool) { return nil, false }

func c14Writer(res *vh.Result, ci int, rng *vh.Rng) {
	c14w.once.Do(func() {
		c14w.d, c14w.err = vh.NewSimDriver(vh.SimDriverOpts{WG: &sync.WaitGroup{}})
		if c14w.err == nil {
			c14w.g, c14w.err = vh.NewGNB(1)
			c14w.col = &c14Collect{}
			c14w.d.HandleReport(c14w.col)
		}
	})
	if c14w.err != nil {
		res.Inconc("writer set-up: " + c14w.err.Error())
		return
	}
	c14w.g.Take()
	n := rng.Range(4, 14)
	var seq []c14Pkt
	var pays [][]byte
	for k := 0; k < n; k++ {
		p := c14Pkt{QFI: -1, TEID: rng.U32()}
		switch rng.Intn(6) {
		case 0:
			p.Len = rng.Range(1200, 1500)
		case 1:
			p.Len = rng.Intn(9)
		case 2:
			p.Len = 0
		default:
			p.Len = rng.Intn(1501)
		}
		if rng.Chance(2, 3) {
			p.QFI = rng.Intn(64)
		}
		seq = append(seq, p)
		pay := rng.Bytes(p.Len)
		pays = append(pays, pay)
		toWrite := pay
		if p.Len > 0 && k%2 == 1 {
			// the way a buffered packet takes: handed up by the kernel in a BUFFER message, decoded by the buffering
			// listener, kept, and re-injected later - what is written must still be exactly the packet
			c14w.col.mu.Lock()
			c14w.col.pkts = nil
			c14w.col.mu.Unlock()
			c14w.d.G.VerifBuff().ServeMsg(&nl.Msg{Body: vh.BufferMsg(uint64(1+rng.Intn(5)), uint16(1+rng.Intn(3)), 4, pay)})
			var got [][]byte
			for w := 0; w < 2000 && len(got) == 0; w++ {
				c14w.col.mu.Lock()
				got = c14w.col.pkts
				c14w.col.mu.Unlock()
				if len(got) == 0 {
					time.Sleep(100 * time.Microsecond) // the hand-over to the handler is asynchronous
				}
			}
			if len(got) != 1 {
				res.Inconc(fmt.Sprintf("case %d: the buffering listener delivered %d packets for one BUFFER message", ci, len(got)))
				return
			}
			toWrite = got[0]
			res.Count("writer_datagrams_through_the_buffering_listener", 1)
		}
		far := &gtp5gnl.FAR{ID: 1, Param: &gtp5gnl.ForwardParam{Creation: &gtp5gnl.HeaderCreation{Desc: 0x100, TEID: p.TEID, PeerAddr: c14w.g.IP, Port: 2152}}}
		var qer *gtp5gnl.QER
		if p.QFI >= 0 {
			qer = &gtp5gnl.QER{ID: 1, QFI: uint8(p.QFI)}
		}
		if err := c14w.d.G.WritePacket(far, qer, toWrite); err != nil {
			res.Violate(ci, "c14:writer-error", fmt.Sprintf("packet %d (%v): WritePacket: %v", k, p, err), map[string]interface{}{"sequence": seq})
			return
		}
	}
	var got []*vh.GPkt
	deadline := time.Now().Add(3 * time.Second)
	for len(got) < n && time.Now().Before(deadline) {
		got = append(got, c14w.g.Take()...)
		if len(got) < n {
			time.Sleep(200 * time.Microsecond)
		}
	}
	viol := func(kind, desc string) {
		res.Violate(ci, "c14:writer-"+kind, desc, map[string]interface{}{"sequence": seq})
	}
	if len(got) != n {
		res.Inconc(fmt.Sprintf("case %d: %d of %d datagrams arrived at the listener within 3 s", ci, len(got), n))
		return
	}
	for k, d := range got {
		p := seq[k]
		res.Evaluations++
		res.DistinctMore++
		if d.Err != nil || d.G == nil {
			viol("malformed", fmt.Sprintf("packet %d (%+v) after %+v: not a well-formed G-PDU: %v (datagram of %d octets)", k, p, seq[:k], d.Err, len(d.B)))
			continue
		}
		g := d.G
		switch {
		case g.Version != 1 || g.PT != 1 || g.Type != 255:
			viol("header", fmt.Sprintf("packet %d: version %d PT %d type %d", k, g.Version, g.PT, g.Type))
		case g.TEID != p.TEID:
			viol("teid", fmt.Sprintf("packet %d: TEID %#x, given %#x", k, g.TEID, p.TEID))
		case !bytes.Equal(g.Payload, pays[k]):
			viol("payload", fmt.Sprintf("packet %d (%d octets given): %d payload octets on the wire, differing from what was given (earlier lengths %v)", k, p.Len, len(g.Payload), seq[:k]))
		}
		if p.QFI >= 0 {
			if len(g.Exts) != 1 || g.Exts[0].Type != 0x85 {
				viol("container", fmt.Sprintf("packet %d: QoS flow %d applies but %d extension headers", k, p.QFI, len(g.Exts)))
			} else if pt, q, _ := g.Exts[0].PDUSession(); int(q) != p.QFI || pt != 0 {
				viol("qfi", fmt.Sprintf("packet %d: PDU type %d QFI %d on the wire, QFI %d given", k, pt, q, p.QFI))
			}
		} else if len(g.Exts) != 0 {
			viol("container-spurious", fmt.Sprintf("packet %d: no QoS flow but %d extension headers", k, len(g.Exts)))
		}
	}
	res.Count("writer_sequences", 1)
	res.Count("writer_datagrams", int64(n))
	if ci%97 == 0 {
		res.Sample(map[string]interface{}{"writer_sequence": seq})
	}
}

func init() { checks["c14"] = runC14 }

type c14Case struct {
	QFI     uint8  `json:"qfi"`
	PDUType uint8  `json:"pdu_type"`
	WithExt bool   `json:"with_ext"`
	TEID    uint32 `json:"teid"`
	PayLen  int    `json:"payload_len"`
}

// c14Check encodes one message with the code under test and decodes it with
// the independent decoder. Returns "" or a violation kind + description.
func c14Check(c c14Case, payload []byte) (string, string, []byte) {
	msg := gtpv1.Message{Flags: 0x34, Type: gtpv1.MsgTypeTPDU, TEID: c.TEID, Payload: payload}
	if c.WithExt {
		msg.Exts = []gtpv1.Encoder{gtpv1.PDUSessionContainer{PDUType: c.PDUType, QoSFlowID: c.QFI}}
	}
	n := msg.Len()
	if n < 0 || n > 1<<17 {
		return "len", fmt.Sprintf("Len()=%d", n), nil
	}
	b := make([]byte, n)
	m, err := msg.Encode(b)
	if err != nil {
		return "encode-err", fmt.Sprintf("Encode error: %v", err), b
	}
	if m != n {
		return "encode-n", fmt.Sprintf("Encode returned %d, Len() %d", m, n), b
	}
	g, err := vh.DecodeGTPU(b)
	if err != nil {
		return "malformed", "independent decoder: " + err.Error(), b
	}
	switch {
	case g.Version != 1:
		return "version", fmt.Sprintf("version %d", g.Version), b
	case g.PT != 1:
		return "pt", "protocol type bit is 0", b
	case g.Spare != 0:
		return "spare", "spare bit set", b
	case g.Type != 255:
		return "type", fmt.Sprintf("message type %d", g.Type), b
	case g.TEID != c.TEID:
		return "teid", fmt.Sprintf("TEID %#x want %#x", g.TEID, c.TEID), b
	case !bytes.Equal(g.Payload, payload):
		return "payload", fmt.Sprintf("payload (%d octets) differs from the %d octets given", len(g.Payload), len(payload)), b
	}
	if c.WithExt {
		if !g.E {
			return "eflag", "extension given but E flag clear", b
		}
		if len(g.Exts) != 1 {
			return "ext-count", fmt.Sprintf("%d extension headers, want 1", len(g.Exts)), b
		}
		e := g.Exts[0]
		if e.Type != 0x85 || e.Units != 1 {
			return "ext-type", fmt.Sprintf("extension type %#x length %d units, want 0x85 / 1", e.Type, e.Units), b
		}
		pt, qfi, raw := e.PDUSession()
		if pt != c.PDUType {
			return "pdu-type", fmt.Sprintf("PDU type %d want %d", pt, c.PDUType), b
		}
		if qfi != c.QFI {
			return "qfi", fmt.Sprintf("QFI %d on the wire, %d given", qfi, c.QFI), b
		}
		if raw&0xc0 != 0 {
			return "qfi-octet", fmt.Sprintf("PPP/RQI bits set in QFI octet %#x", raw), b
		}
		if e.Content[0]&0x0f != 0 {
			return "pdu-type-octet", fmt.Sprintf("QMP/SNP/spare bits set in PDU type octet %#x", e.Content[0]), b
		}
	} else if len(g.Exts) != 0 {
		return "ext-spurious", fmt.Sprintf("%d extension headers, none given", len(g.Exts)), b
	}
	return "", "", b
}

func runC14(res *vh.Result) {
	res.Rule = "gtpv1.Message{Flags:0x34}.Encode decoded by an independent GTP-U decoder; core grid QFI 0..63 x PDU type 0..15 x " +
		"{with,without container} enumerated completely for each (TEID, payload length) pair of the tier; a case is non-trivial when it " +
		"carries the container or a non-empty payload; distinct = distinct (qfi,pdu type,ext,teid,length) tuples; plus sequences of 4-14 packets " +
		"(lengths up and down, with/without QoS flow) through the real Gtp5g.WritePacket to a UDP listener, every datagram decoded by the same decoder"
	res.Assumptions = []string{
		"reference decoder written from TS 29.281 §5.1/5.2 and TS 38.415 §5.5.2 (harness code)",
		"only the header form go-upf emits (flags 0x34) is in scope",
	}
	res.Exhaustive = true // the QFI x PDU type x ext core is enumerated completely per (TEID,len) pair
	teids := []uint32{0, 1, 0x7fffffff, 0x80000000, 0xffffffff, 0x01020304}
	lens := []int{0, 1, 2, 3, 4, 5, 7, 8, 9, 1399, 1400, 1401, 1402, 1403, 1499, 1500}
	extraPairs := vh.Tiered(6, 5000)
	type pair struct {
		teid uint32
		l    int
	}
	var pairs []pair
	for i, t := range teids {
		pairs = append(pairs, pair{t, lens[i%len(lens)]})
	}
	for _, l := range lens {
		pairs = append(pairs, pair{0xdeadbeef, l})
	}
	if vh.Thorough() { // every payload length 0..MTU
		for l := 0; l <= 1500; l++ {
			pairs = append(pairs, pair{teids[l%len(teids)], l})
		}
	}
	base := len(pairs)
	total := base + extraPairs
	nwriter := vh.Tiered(400, 200000)
	seen := map[string]bool{}
	res.Cases(total+nwriter, func(i int, rng *vh.Rng) {
		if i >= total {
			c14Writer(res, i, rng)
			return
		}
		var p pair
		if i < base {
			p = pairs[i]
		} else {
			p = pair{rng.U32(), rng.Intn(1501)}
		}
		payload := rng.Bytes(p.l)
		for qfi := 0; qfi < 64; qfi++ {
			for pt := 0; pt < 16; pt++ {
				for ext := 0; ext < 2; ext++ {
					if ext == 0 && (qfi != 0 || pt != 0) {
						continue // without container the QFI/type are not inputs
					}
					c := c14Case{QFI: uint8(qfi), PDUType: uint8(pt), WithExt: ext == 1, TEID: p.teid, PayLen: p.l}
					kind, desc, wire := c14Check(c, payload)
					res.Evaluations++
					if ext == 1 || p.l > 0 {
						res.DistinctMore++
					}
					if kind != "" {
						sig := "c14:" + kind
						if len(wire) > 24 {
							wire = wire[:24]
						}
						res.Violate(i, sig, fmt.Sprintf("qfi=%d pdutype=%d ext=%v teid=%#x len=%d: %s", qfi, pt, ext == 1, p.teid, p.l, desc),
							map[string]interface{}{"case": c, "wire_prefix": fmt.Sprintf("%x", wire)})
					}
				}
			}
		}
		if !seen["s"] && i < 3 {
			c := c14Case{QFI: 9, PDUType: 0, WithExt: true, TEID: p.teid, PayLen: p.l}
			_, _, wire := c14Check(c, payload)
			if len(wire) > 20 {
				wire = wire[:20]
			}
			res.Sample(map[string]interface{}{"case": c, "wire_prefix": fmt.Sprintf("%x", wire)})
		}
	}, nil)
}
