package main

import (
	"fmt"
	"runtime"
	"sort"
	"strings"
	"sync"
	"syscall"
	"time"

	"github.com/wmnsk/go-pfcp/ie"

	"github.com/free5gc/go-upf/internal/forwarder/perio"
	"github.com/free5gc/go-upf/internal/report"
	"github.com/free5gc/go-upf/internal/verif/vh"
)

func init() { checks["c15"] = runC15 }

type c15Op struct {
	K      string `json:"k"` // add del tick deltick close
	SEID   uint64 `json:"seid,omitempty"`
	URR    uint32 `json:"urr,omitempty"`
	Period int    `json:"period_h,omitempty"` // hours
}

type pair struct {
	seid uint64
	urr  uint32
}

// collecting handler + query callback (component level)
type c15Mon struct {
	mu      sync.Mutex
	queries []map[uint64][]uint32
	reports []report.SessReport
	serial  uint64
	issued  map[uint64]pair
	sync    chan struct{}
	tokens  chan struct{} // slow-consumer cases: a delivery is admitted per token (closed = all)
}

func (m *c15Mon) NotifySessReport(sr report.SessReport) {
	if sr.SEID == vh.SentSEID {
		select {
		case m.sync <- struct{}{}:
		default:
		}
		return
	}
	if m.tokens != nil {
		<-m.tokens
	}
	m.mu.Lock()
	m.reports = append(m.reports, sr)
	m.mu.Unlock()
}
func (m *c15Mon) PopBufPkt(uint64, uint16) ([]byte, bool) { return nil, false }

func (m *c15Mon) query(q map[uint64][]uint32) (map[uint64][]report.USAReport, error) {
	m.mu.Lock()
	defer m.mu.Unlock()
	out := map[uint64][]report.USAReport{}
	if l, ok := q[vh.SentSEID]; ok && len(q) == 1 && len(l) == 1 {
		out[vh.SentSEID] = []report.USAReport{vh.UniqueUSAR(vh.SentURR, 1)}
		return out, nil
	}
	cp := map[uint64][]uint32{}
	for s, l := range q {
		cp[s] = append([]uint32{}, l...)
		for _, u := range l {
			m.serial++
			m.issued[m.serial] = pair{s, u}
			out[s] = append(out[s], vh.UniqueUSAR(u, m.serial))
		}
	}
	m.queries = append(m.queries, cp)
	return out, nil
}

func tickerGoroutines() int {
	buf := make([]byte, 1<<20)
	for {
		n := runtime.Stack(buf, true)
		if n < len(buf) {
			buf = buf[:n]
			break
		}
		buf = make([]byte, 2*len(buf))
	}
	return strings.Count(string(buf), "perio.(*PERIOGroup).newTicker.func1")
}

func setString(s map[pair]bool) string {
	var l []string
	for p := range s {
		l = append(l, fmt.Sprintf("%#x:%d", p.seid, p.urr))
	}
	sort.Strings(l)
	return strings.Join(l, ",")
}

// ---- component level ----

func c15Component(res *vh.Result, ci int, rng *vh.Rng) {
	wg := &sync.WaitGroup{}
	srv, err := perio.OpenServer(wg)
	if err != nil {
		res.Inconc(err.Error())
		return
	}
	mon := &c15Mon{issued: map[uint64]pair{}, sync: make(chan struct{}, 16)}
	srv.Handle(mon, mon.query)
	srv.AddPeriodReportTimer(vh.SentSEID, vh.SentURR, vh.SentPeriod)
	base := tickerGoroutines()
	_ = base
	barrier := func() bool {
		srv.VerifInjectTick(vh.SentPeriod)
		select {
		case <-mon.sync:
			return true
		case <-time.After(20 * time.Second):
			return false
		}
	}
	model := map[int]map[pair]bool{} // period (hours) -> registered set
	where := map[pair]int{}
	var ops []c15Op
	viol := func(sig, desc string) {
		res.Violate(ci, "C15:"+sig, desc, map[string]interface{}{"level": "component", "ops": ops})
	}
	nops := rng.Range(10, 60)
	nsess, nurr, nper := rng.Range(1, 6), rng.Range(1, 4), rng.Range(1, 4)
	closed := false
	for n := 0; n < nops && !closed; n++ {
		p := pair{uint64(1 + rng.Intn(nsess)), uint32(1 + rng.Intn(nurr))}
		per := 1 + rng.Intn(nper)
		var op c15Op
		switch r := rng.Intn(10); {
		case r < 4:
			if _, reg := where[p]; reg {
				continue
			}
			op = c15Op{K: "add", SEID: p.seid, URR: p.urr, Period: per}
			srv.AddPeriodReportTimer(p.seid, p.urr, time.Duration(per)*time.Hour)
			if model[per] == nil {
				model[per] = map[pair]bool{}
			}
			model[per][p] = true
			where[p] = per
		case r < 6:
			op = c15Op{K: "del", SEID: p.seid, URR: p.urr}
			srv.DelPeriodReportTimer(p.seid, p.urr)
			if q, reg := where[p]; reg {
				delete(model[q], p)
				delete(where, p)
			}
		case r < 7:
			// remove every URR of one period and tick it right behind: the tick must query nothing
			per = 1 + rng.Intn(nper)
			op = c15Op{K: "deltick", Period: per}
			for q := range model[per] {
				srv.DelPeriodReportTimer(q.seid, q.urr)
				delete(where, q)
			}
			model[per] = map[pair]bool{}
			fallthrough
		default:
			if op.K == "" {
				op = c15Op{K: "tick", Period: per}
			}
			ops = append(ops, op)
			if !barrier() {
				res.Inconc("component barrier timed out")
				return
			}
			mon.mu.Lock()
			mon.queries, mon.reports = nil, nil
			mon.mu.Unlock()
			srv.VerifInjectTick(time.Duration(per) * time.Hour)
			if !barrier() {
				res.Inconc("component barrier timed out")
				return
			}
			mon.mu.Lock()
			qs, rs := mon.queries, mon.reports
			mon.mu.Unlock()
			want := model[per]
			res.Count("ticks", 1)
			if len(want) == 0 {
				if len(qs) != 0 {
					viol("tick-of-empty-period-queried", fmt.Sprintf("tick of period %dh with no registered URR queried %v", per, qs))
				}
				continue
			}
			if len(qs) != 1 {
				viol("tick-query-count", fmt.Sprintf("tick of period %dh caused %d queries, want 1", per, len(qs)))
				continue
			}
			got := map[pair]bool{}
			dup := false
			for s, l := range qs[0] {
				for _, u := range l {
					if got[pair{s, u}] {
						dup = true
					}
					got[pair{s, u}] = true
				}
			}
			res.Count("urrs_queried", int64(len(got)))
			if dup || setString(got) != setString(want) {
				viol("tick-query-set", fmt.Sprintf("tick of period %dh queried {%s} (duplicates: %v), registered {%s}", per, setString(got), dup, setString(want)))
			}
			// each report once, marked periodic, to its session
			seen := map[pair]int{}
			sessSeen := map[uint64]int{}
			for _, sr := range rs {
				sessSeen[sr.SEID]++
				for _, r := range sr.Reports {
					u, ok := r.(report.USAReport)
					if !ok {
						viol("report-type", "non-usage report delivered")
						continue
					}
					serial := (u.VolumMeasure.TotalVolume - 1) / 1000
					orig, known := mon.issued[serial]
					if !known || orig.seid != sr.SEID || orig.urr != u.URRID {
						viol("report-misattributed", fmt.Sprintf("report serial %d (URR %d) delivered under session %#x, measured for %v", serial, u.URRID, sr.SEID, orig))
					}
					if u.USARTrigger.Flags&report.USAR_TRIG_PERIO == 0 {
						viol("report-not-periodic", fmt.Sprintf("periodic report for URR %d not marked PERIO (flags %#x)", u.URRID, u.USARTrigger.Flags))
					}
					seen[pair{sr.SEID, u.URRID}]++
				}
			}
			for q := range want {
				if seen[q] != 1 {
					viol("report-count", fmt.Sprintf("URR %d of session %#x: %d periodic reports delivered for one tick, want 1", q.urr, q.seid, seen[q]))
				}
			}
			for s, n := range sessSeen {
				if n != 1 {
					viol("sessreport-count", fmt.Sprintf("session %#x received %d report notifications for one tick", s, n))
				}
			}
			continue
		}
		ops = append(ops, op)
		// census at random points
		if rng.Chance(1, 4) {
			if !barrier() {
				res.Inconc("component barrier timed out")
				return
			}
			nonEmpty := 0
			for _, s := range model {
				if len(s) > 0 {
					nonEmpty++
				}
			}
			groups := srv.VerifGroups()
			gs := map[int]map[pair]bool{}
			for _, g := range groups {
				if g.Period == vh.SentPeriod {
					continue
				}
				h := int(g.Period / time.Hour)
				gs[h] = map[pair]bool{}
				for s, l := range g.URRs {
					for _, u := range l {
						gs[h][pair{s, u}] = true
					}
				}
				if !g.Ticker {
					viol("group-without-ticker", fmt.Sprintf("period %dh has registrations but no ticker", h))
				}
			}
			for h, s := range model {
				if len(s) > 0 && setString(gs[h]) != setString(s) {
					viol("registration-table", fmt.Sprintf("period %dh: table holds {%s}, registered {%s}", h, setString(gs[h]), setString(s)))
				}
			}
			for h, s := range gs {
				if len(model[h]) == 0 {
					viol("stale-group", fmt.Sprintf("period %dh still has a group {%s} although its last URR is gone", h, setString(s)))
				}
			}
			// ticker goroutines: one per non-empty period (+ sentinel); give a just-stopped ticker time to leave
			want := nonEmpty + 1
			ok := false
			for t := 0; t < 200; t++ {
				if tickerGoroutines() == want {
					ok = true
					break
				}
				time.Sleep(time.Millisecond)
			}
			if !ok {
				viol("ticker-census", fmt.Sprintf("%d ticker goroutines for %d non-empty periods (+1 sentinel)", tickerGoroutines(), nonEmpty))
			}
			res.Count("censuses", 1)
		}
	}
	srv.Close()
	done := make(chan struct{})
	go func() { wg.Wait(); close(done) }()
	select {
	case <-done:
		ok := false
		for t := 0; t < 200; t++ {
			if tickerGoroutines() == 0 {
				ok = true
				break
			}
			time.Sleep(time.Millisecond)
		}
		if !ok {
			viol("tickers-after-close", fmt.Sprintf("%d ticker goroutines left after Close", tickerGoroutines()))
		}
	case <-time.After(20 * time.Second):
		viol("close-hangs", "perio server (or one of its tickers) did not terminate within 20 s of Close")
	}
	res.Eval(vh.Sig(vh.J(ops)))
	res.Count("ops", int64(len(ops)))
	if ci < 2 {
		res.Sample(map[string]interface{}{"level": "component", "ops": ops})
	}
}

// ---- driver level: batching at the netlink boundary ----

type c15Collect struct {
	mu      sync.Mutex
	reports []report.SessReport
}

func (c *c15Collect) NotifySessReport(sr report.SessReport) {
	c.mu.Lock()
	c.reports = append(c.reports, sr)
	c.mu.Unlock()
}
func (c *c15Collect) PopBufPkt(uint64, uint16) ([]byte, bool) { return nil, false }

func c15Driver(res *vh.Result, ci int, rng *vh.Rng, count int) {
	wg := &sync.WaitGroup{}
	d, err := vh.NewSimDriver(vh.SimDriverOpts{WG: wg})
	if err != nil {
		res.Inconc(err.Error())
		return
	}
	col := &c15Collect{}
	d.HandleReport(col)
	defer func() {
		d.Close()
		done := make(chan struct{})
		go func() { wg.Wait(); close(done) }()
		select {
		case <-done:
		case <-time.After(20 * time.Second):
			res.Inconc("driver did not stop")
		}
	}()
	viol := func(sig, desc string) {
		res.Violate(ci, "C15:"+sig, desc, map[string]interface{}{"level": "driver", "registrations": count})
	}
	// registrations spread over a few sessions and 1-2 periods
	nsess := 1 + rng.Intn(7)
	if count > 200 {
		nsess = 10 + rng.Intn(40)
	}
	periods := []uint32{3600, 7200}
	model := map[uint32]map[pair]bool{3600: {}, 7200: {}}
	var all []pair
	for i := 0; i < count; i++ {
		p := pair{uint64(1 + i%nsess), uint32(1 + i/nsess)}
		per := periods[0]
		if rng.Chance(1, 5) {
			per = periods[1]
		}
		g := vh.Grp(vh.TCreateURR, vh.URRID(p.urr), vh.MeasMethod(2), vh.RepTrig(1, 2), vh.MeasPeriod(per))
		pi, _ := ie.Parse(g.Bytes())
		if err := d.G.CreateURR(p.seid, pi); err != nil {
			res.Inconc("create URR: " + err.Error())
			return
		}
		model[per][p] = true
		all = append(all, p)
	}
	// non-periodic URRs must never be queried
	for i := 0; i < 5; i++ {
		g := vh.Grp(vh.TCreateURR, vh.URRID(uint32(900000+i)), vh.MeasMethod(2), vh.RepTrig(2, 2))
		pi, _ := ie.Parse(g.Bytes())
		d.G.CreateURR(uint64(1+i%nsess), pi)
	}
	// remove a random subset again
	nrem := rng.Intn(1 + count/4)
	for i := 0; i < nrem; i++ {
		p := all[rng.Intn(len(all))]
		g := vh.Grp(vh.TRemoveURR, vh.URRID(p.urr))
		pi, _ := ie.Parse(g.Bytes())
		// a third of the removals is refused by the kernel (DEL_URR fails): the URR is given up by the
		// control plane all the same (its session drops it / ends), so it must leave the periodic set
		refuse := rng.Chance(1, 3)
		if refuse {
			d.K.SetFailCmd(vh.KCmdDelURR, syscall.ENOMEM)
		}
		_, rerr := d.G.RemoveURR(p.seid, pi)
		if refuse {
			d.K.SetFailCmd(vh.KCmdDelURR, 0)
			if rerr != nil {
				res.Count("removals_refused_by_the_kernel", 1)
			}
		}
		for _, s := range model {
			delete(s, p)
		}
	}
	for _, per := range periods {
		if !d.PerioBarrier() {
			res.Inconc("driver barrier timed out")
			return
		}
		d.K.TakeLog()
		col.mu.Lock()
		col.reports = nil
		col.mu.Unlock()
		d.G.VerifPerio().VerifInjectTick(time.Duration(per) * time.Second)
		if !d.PerioBarrier() {
			res.Inconc("driver barrier timed out")
			return
		}
		want := model[per]
		got := map[pair]int{}
		batches := 0
		serialOwner := map[uint64]pair{}
		for _, l := range d.K.TakeLog() {
			if l.Cmd != vh.KCmdGetMul || l.Conn != "genl-ps" {
				continue
			}
			sentinel := false
			n := 0
			for _, m := range vh.FindAllNLA(l.Attrs, vh.KUrrMulti) {
				s, u := vh.FindNLA(m.Kids, vh.KUrrSEID), vh.FindNLA(m.Kids, vh.KUrrID)
				if s == nil || u == nil {
					viol("batch-entry-malformed", "query entry without SEID or URR id")
					continue
				}
				if s.U64() == vh.SentSEID {
					sentinel = true
					continue
				}
				got[pair{s.U64(), uint32(u.U64())}]++
				n++
			}
			if sentinel {
				continue
			}
			batches++
			if n > 56 {
				viol("batch-too-large", fmt.Sprintf("one GET_MULTI_REPORTS asks for %d URRs, limit is 56", n))
			}
			if num := vh.FindNLA(l.Attrs, vh.KUrrNum); num == nil || int(num.U64()) != n {
				viol("batch-count-attr", fmt.Sprintf("URR_NUM attribute %v for %d entries", num, n))
			}
			for _, s := range l.Serials {
				if r := d.K.Lookup(s); r != nil {
					serialOwner[s] = pair{r.Key.SEID, uint32(r.Key.ID)}
				}
			}
		}
		res.Count("ticks", 1)
		res.Count("netlink_batches", int64(batches))
		res.Count("urrs_queried", int64(len(got)))
		gs := map[pair]bool{}
		for p, n := range got {
			gs[p] = true
			if n > 1 {
				viol("batch-overlap", fmt.Sprintf("URR %d of session %#x queried %d times in one tick", p.urr, p.seid, n))
			}
		}
		if setString(gs) != setString(want) {
			missing, extra := 0, 0
			for p := range want {
				if !gs[p] {
					missing++
				}
			}
			for p := range gs {
				if !want[p] {
					extra++
				}
			}
			viol("tick-query-set", fmt.Sprintf("tick of period %ds with %d registered URRs: %d missing from the queries, %d queried although not registered", per, len(want), missing, extra))
		}
		// delivery: each kernel report exactly once, marked PERIO, under its session
		col.mu.Lock()
		rs := col.reports
		col.mu.Unlock()
		seen := map[uint64]int{}
		for _, sr := range rs {
			for _, r := range sr.Reports {
				u, ok := r.(report.USAReport)
				if !ok {
					continue
				}
				serial := (u.VolumMeasure.TotalVolume - 1) / 1000
				seen[serial]++
				o, known := serialOwner[serial]
				if !known || o.seid != sr.SEID || o.urr != u.URRID {
					viol("report-misattributed", fmt.Sprintf("report serial %d delivered as URR %d of session %#x, measured for %v", serial, u.URRID, sr.SEID, o))
				}
				if u.USARTrigger.Flags&report.USAR_TRIG_PERIO == 0 {
					viol("report-not-periodic", fmt.Sprintf("periodic report for URR %d not marked PERIO", u.URRID))
				}
			}
		}
		for s := range serialOwner {
			if seen[s] != 1 {
				viol("report-count", fmt.Sprintf("kernel report %d delivered %d times", s, seen[s]))
			}
		}
	}
	res.Eval(vh.Sig("drv", count, nsess, nrem))
	if ci%7 == 0 {
		res.Sample(map[string]interface{}{"level": "driver", "registrations": count, "sessions": nsess, "removed": nrem})
	}
}

// c15SlowConsumer: the consumer of the notifications (the PFCP loop in the product) is busy while further ticks
// are served. Several sessions share one period; deliveries are admitted one token at a time, a further tick is
// injected after each token, so that notifications of a later tick are queued while an earlier batch is only
// partly delivered. At the end every issued report must have been delivered exactly once, under its session.
func c15SlowConsumer(res *vh.Result, ci int, rng *vh.Rng) {
	wg := &sync.WaitGroup{}
	srv, err := perio.OpenServer(wg)
	if err != nil {
		res.Inconc(err.Error())
		return
	}
	mon := &c15Mon{issued: map[uint64]pair{}, sync: make(chan struct{}, 16), tokens: make(chan struct{}, 64)}
	srv.Handle(mon, mon.query)
	srv.AddPeriodReportTimer(vh.SentSEID, vh.SentURR, vh.SentPeriod)
	nsess, nurr, nticks := rng.Range(2, 7), rng.Range(1, 3), rng.Range(2, 8)
	per := time.Duration(1+rng.Intn(3)) * time.Hour
	viol := func(sig, desc string) {
		res.Violate(ci, "C15:"+sig, desc, map[string]interface{}{"level": "slow-consumer", "sessions": nsess, "urrs": nurr, "ticks": nticks})
	}
	for se := 1; se <= nsess; se++ {
		for u := 1; u <= nurr; u++ {
			srv.AddPeriodReportTimer(uint64(se), uint32(u), per)
		}
	}
	nq := func() int {
		mon.mu.Lock()
		defer mon.mu.Unlock()
		return len(mon.queries)
	}
	ok := true
	for t := 1; t <= nticks && ok; t++ {
		srv.VerifInjectTick(per)
		deadline := time.Now().Add(20 * time.Second)
		for nq() < t {
			if time.Now().After(deadline) {
				ok = false
				break
			}
			time.Sleep(50 * time.Microsecond)
		}
		// admit a few deliveries, then let the next tick's notifications arrive behind the rest
		for k := rng.Intn(3); k >= 0; k-- {
			select {
			case mon.tokens <- struct{}{}:
			default:
			}
		}
		if rng.Bool() {
			time.Sleep(time.Duration(rng.Intn(300)) * time.Microsecond)
		}
	}
	close(mon.tokens)
	if ok {
		srv.VerifInjectTick(vh.SentPeriod)
		select {
		case <-mon.sync:
		case <-time.After(20 * time.Second):
			ok = false
		}
	}
	if !ok {
		res.Inconc("slow-consumer barrier timed out")
	} else {
		mon.mu.Lock()
		seen := map[uint64]int{}
		for _, sr := range mon.reports {
			for _, r := range sr.Reports {
				u, isU := r.(report.USAReport)
				if !isU {
					viol("report-type", "non-usage report delivered")
					continue
				}
				serial := (u.VolumMeasure.TotalVolume - 1) / 1000
				orig, known := mon.issued[serial]
				if !known || orig.seid != sr.SEID || orig.urr != u.URRID {
					viol("report-misattributed", fmt.Sprintf("report serial %d (URR %d) delivered under session %#x, measured for %v", serial, u.URRID, sr.SEID, orig))
				}
				seen[serial]++
			}
		}
		lost, dup := 0, 0
		for sn := range mon.issued {
			switch {
			case seen[sn] == 0:
				lost++
			case seen[sn] > 1:
				dup++
			}
		}
		nissued := len(mon.issued)
		mon.mu.Unlock()
		res.Count("slow_consumer_reports", int64(nissued))
		if nissued != nticks*nsess*nurr {
			viol("tick-query-set", fmt.Sprintf("%d ticks over %d sessions x %d URRs queried %d URRs in all", nticks, nsess, nurr, nissued))
		}
		if lost > 0 || dup > 0 {
			viol("report-count", fmt.Sprintf("busy consumer: of %d periodic reports %d were never delivered and %d more than once", nissued, lost, dup))
		}
	}
	srv.Close()
	done := make(chan struct{})
	go func() { wg.Wait(); close(done) }()
	select {
	case <-done:
	case <-time.After(20 * time.Second):
		viol("close-hangs", "perio server did not terminate within 20 s of Close")
	}
	res.Eval(vh.Sig(fmt.Sprintf("slow %d %d %d %v", nsess, nurr, nticks, per)))
}

// c15RealTicker: bounded-progress check with real tickers. A 1 s and a 2 s period are registered; within ten
// periods each must have been queried at least twice with exactly its registered set; after removal (and a
// barrier) no further query may name the removed URR.
func c15RealTicker(res *vh.Result, ci int, rng *vh.Rng) {
	wg := &sync.WaitGroup{}
	srv, err := perio.OpenServer(wg)
	if err != nil {
		res.Inconc(err.Error())
		return
	}
	mon := &c15Mon{issued: map[uint64]pair{}, sync: make(chan struct{}, 16)}
	srv.Handle(mon, mon.query)
	srv.AddPeriodReportTimer(vh.SentSEID, vh.SentURR, vh.SentPeriod)
	viol := func(sig, desc string) {
		res.Violate(ci, "C15:"+sig, desc, map[string]interface{}{"level": "real-ticker"})
	}
	a, b := pair{uint64(1 + rng.Intn(5)), uint32(1 + rng.Intn(5))}, pair{uint64(10 + rng.Intn(5)), uint32(1 + rng.Intn(5))}
	srv.AddPeriodReportTimer(a.seid, a.urr, time.Second)
	srv.AddPeriodReportTimer(b.seid, b.urr, 2*time.Second)
	count := func() (na, nb, bad int) {
		mon.mu.Lock()
		defer mon.mu.Unlock()
		for _, q := range mon.queries {
			switch {
			case len(q) == 1 && len(q[a.seid]) == 1 && q[a.seid][0] == a.urr:
				na++
			case len(q) == 1 && len(q[b.seid]) == 1 && q[b.seid][0] == b.urr:
				nb++
			default:
				bad++
			}
		}
		return
	}
	deadline := time.Now().Add(20 * time.Second)
	for {
		na, nb, _ := count()
		if (na >= 2 && nb >= 2) || time.Now().After(deadline) {
			break
		}
		time.Sleep(50 * time.Millisecond)
	}
	na, nb, bad := count()
	res.Count("real_ticks_observed", int64(na+nb))
	if bad > 0 {
		viol("real-tick-query-set", fmt.Sprintf("%d queries of a real tick named something else than the URR registered with that period", bad))
	}
	if na < 2 || nb < 2 {
		viol("ticker-does-not-fire", fmt.Sprintf("within 20 s the 1 s period was queried %d times and the 2 s period %d times (each at least twice expected)", na, nb))
	}
	// removal: after the server has consumed the removal nothing may name the URR any more
	srv.DelPeriodReportTimer(a.seid, a.urr)
	srv.VerifInjectTick(vh.SentPeriod)
	select {
	case <-mon.sync:
	case <-time.After(20 * time.Second):
		res.Inconc("real-ticker barrier timed out")
	}
	mon.mu.Lock()
	mon.queries = nil
	mon.mu.Unlock()
	time.Sleep(2500 * time.Millisecond)
	na2, _, _ := count()
	if na2 > 0 {
		viol("removed-urr-still-ticking", fmt.Sprintf("the URR of the 1 s period was queried %d times after its removal", na2))
	}
	srv.Close()
	done := make(chan struct{})
	go func() { wg.Wait(); close(done) }()
	select {
	case <-done:
	case <-time.After(20 * time.Second):
		viol("close-hangs", "perio server with real tickers did not terminate within 20 s of Close")
	}
	res.Eval(vh.Sig("real", a, b))
}

func runC15(res *vh.Result) {
	res.Rule = "component level: seeded add/remove/tick histories against the real perio.Server (ticks injected through a hook; sentinel-period barrier), " +
		"every tick's query set, report delivery and the ticker-goroutine census compared with a registered-set model; driver level: registration counts " +
		"1,55,56,57,112,113,1000 (+random) through Create/Remove URR on the real driver, union/disjointness/size of the GET_MULTI_REPORTS batches at the " +
		"simulated kernel; plus a few cases with real 1 s / 2 s tickers (bounded progress: each period queried at least twice within 20 s with exactly its set; " +
		"nothing after removal); every case is non-trivial (contains at least one registration); distinct = distinct operation sequences / configurations"
	res.Assumptions = []string{
		"periods are hours, so no real ticker fires during a case; ticks are injected as the event a ticker posts",
		"the barrier is a sentinel registration whose query/report proves all earlier events were consumed",
	}
	ncomp := vh.Tiered(1500, 100000)
	counts := []int{1, 55, 56, 57, 112, 113, 1000, 2, 111, 168, 169}
	ndrv := vh.Tiered(len(counts)+60, len(counts)+6000)
	nreal := vh.Tiered(8, 96)
	nslow := vh.Tiered(60, 4000)
	res.Cases(ncomp+ndrv+nreal+nslow, func(i int, rng *vh.Rng) {
		if i >= ncomp+ndrv+nreal {
			c15SlowConsumer(res, i, rng)
			return
		}
		if i >= ncomp+ndrv {
			c15RealTicker(res, i, rng)
			return
		}
		if i < ncomp {
			c15Component(res, i, rng)
			return
		}
		k := i - ncomp
		n := 0
		if k < len(counts) {
			n = counts[k]
		} else {
			n = rng.Range(1, 400)
		}
		c15Driver(res, i, rng, n)
	}, nil)
}
