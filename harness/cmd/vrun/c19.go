package main

import (
	"encoding/binary"
	"fmt"

	"github.com/free5gc/go-upf/internal/report"
	"github.com/free5gc/go-upf/internal/verif/vh"
)

// Reference tables transcribed from TS 29.244 (bit index = (octet-5)*8 + bit-1).
var refApply = []string{ // §8.2.26
	"DROP", "FORW", "BUFF", "NOCP", "DUPL", "IPMA", "IPMD", "DFRT",
	"EDRT", "BDPN", "DDPN", "FSSM", "MBSU",
}
var refRepTrig = []string{ // §8.2.19
	"PERIO", "VOLTH", "TIMTH", "QUHTI", "START", "STOPT", "DROTH", "LIUSA",
	"VOLQU", "TIMQU", "ENVCL", "MACAR", "EVETH", "EVEQU", "IPMJL", "QUVTI",
	"REEMR", "UPINT",
}
var refUsaTrig = []string{ // §8.2.41
	"PERIO", "VOLTH", "TIMTH", "QUHTI", "START", "STOPT", "DROTH", "IMMER",
	"VOLQU", "TIMQU", "LIUSA", "TERMR", "MONIT", "ENVCL", "MACAR", "EVETH",
	"EVEQU", "TEBUR", "IPMJL", "QUVTI", "EMRRE", "UPINT",
}

func applyAccessors(a *report.ApplyAction) []bool {
	return []bool{a.DROP(), a.FORW(), a.BUFF(), a.NOCP(), a.DUPL(), a.IPMA(), a.IPMD(), a.DFRT(),
		a.EDRT(), a.BDPN(), a.DDPN(), a.FSSM(), a.MBSU()}
}

func repTrigAccessors(r *report.ReportingTrigger) []bool {
	return []bool{r.PERIO(), r.VOLTH(), r.TIMTH(), r.QUHTI(), r.START(), r.STOPT(), r.DROTH(), r.LIUSA(),
		r.VOLQU(), r.TIMQU(), r.ENVCL(), r.MACAR(), r.EVETH(), r.EVEQU(), r.IPMJL(), r.QUVTI(),
		r.REEMR(), r.UPINT()}
}

func usaTrigAccessors(t *report.UsageReportTrigger) []bool {
	return []bool{t.PERIO(), t.VOLTH(), t.TIMTH(), t.QUHTI(), t.START(), t.STOPT(), t.DROTH(), t.IMMER(),
		t.VOLQU(), t.TIMQU(), t.LIUSA(), t.TERMR(), t.MONIT(), t.ENVCL(), t.MACAR(), t.EVETH(),
		t.EVEQU(), t.TEBUR(), t.IPMJL(), t.QUVTI(), t.EMRRE(), t.UPINT()}
}

func runC19(res *vh.Result) {
	res.Rule = "enumeration of flag words: apply action 2^8 one-octet + 2^16 two-octet; reporting triggers 2^16 two-octet + " +
		"3-octet words (quick: 2^20 stratified sample, thorough: all 2^24); usage report trigger words (quick 2^20 sample, thorough all 2^22); " +
		"SetReportingTrigger on every single bit / zero / multi-bit / out-of-table word; 64 volume-measurement flag subsets x 3 value sets; " +
		"too-short inputs. distinct = distinct non-zero words enumerated (each value is visited once)"
	res.Assumptions = []string{
		"bit layout tables transcribed from TS 29.244 §8.2.19/§8.2.26/§8.2.41/§8.2.44 are the reference",
		"go-pfcp's ie.IE.Payload / Marshal used only to obtain the octets the code under test produced",
	}
	const chunks = 256
	full := vh.Thorough()
	res.Exhaustive = full
	viol := func(i int, kind string, desc string, detail interface{}) {
		res.Violate(i, "c19:"+kind, desc, detail)
	}
	res.Cases(chunks, func(ci int, rng *vh.Rng) {
		// ---- Apply Action ----
		if ci == 0 {
			for v := 0; v < 256; v++ {
				var a report.ApplyAction
				if err := a.Unmarshal([]byte{byte(v)}); err != nil {
					viol(ci, "apply-1oct-err", fmt.Sprintf("1-octet apply action %#x rejected: %v", v, err), nil)
					continue
				}
				res.Evaluations++
				if v != 0 {
					res.DistinctMore++
				}
				if a.Flags != uint16(v) {
					viol(ci, "apply-1oct-flags", fmt.Sprintf("1-octet apply action %#02x decoded to flags %#04x", v, a.Flags), nil)
				}
				acc := applyAccessors(&a)
				for b, name := range refApply {
					want := b < 8 && v&(1<<uint(b)) != 0
					if acc[b] != want {
						viol(ci, "apply-1oct-acc-"+name, fmt.Sprintf("1-octet apply action %#02x: %s()=%v want %v", v, name, acc[b], want), nil)
					}
				}
			}
			// too short
			var a report.ApplyAction
			if err := a.Unmarshal(nil); err == nil {
				viol(ci, "apply-short", "empty apply action accepted", nil)
			}
			var r report.ReportingTrigger
			for _, in := range [][]byte{nil, {1}} {
				if err := r.Unmarshal(in); err == nil {
					viol(ci, "reptrig-short", fmt.Sprintf("reporting triggers of %d octets accepted", len(in)), nil)
				}
			}
			res.Evaluations += 3
			c19Volume(res, ci, rng, viol)
			c19SetTrig(res, ci, viol)
		}
		// two-octet apply action: 2^16 split over chunks
		for v := ci * (65536 / chunks); v < (ci+1)*(65536/chunks); v++ {
			o5, o6 := byte(v), byte(v>>8)
			var a report.ApplyAction
			if err := a.Unmarshal([]byte{o5, o6}); err != nil {
				viol(ci, "apply-2oct-err", fmt.Sprintf("2-octet apply action %02x%02x rejected: %v", o5, o6, err), nil)
				continue
			}
			res.Evaluations++
			if v != 0 {
				res.DistinctMore++
			}
			if a.Flags != uint16(o5)|uint16(o6)<<8 {
				viol(ci, "apply-2oct-flags", fmt.Sprintf("apply action octets %02x %02x decoded to flags %#04x", o5, o6, a.Flags), nil)
			}
			acc := applyAccessors(&a)
			for b, name := range refApply {
				var want bool
				if b < 8 {
					want = o5&(1<<uint(b)) != 0
				} else {
					want = o6&(1<<uint(b-8)) != 0
				}
				if acc[b] != want {
					viol(ci, "apply-2oct-acc-"+name, fmt.Sprintf("apply action octets %02x %02x: %s()=%v want %v", o5, o6, name, acc[b], want), nil)
				}
			}
			// longer IE (future octets) must decode the first two octets identically
			var a3 report.ApplyAction
			if err := a3.Unmarshal([]byte{o5, o6, 0xff}); err != nil || a3.Flags != a.Flags {
				viol(ci, "apply-3oct", fmt.Sprintf("3-octet apply action %02x %02x ff: flags %#x err %v", o5, o6, a3.Flags, err), nil)
			}

			// ---- Reporting triggers, two-octet form (same 2^16 space) ----
			var r report.ReportingTrigger
			if err := r.Unmarshal([]byte{o5, o6}); err != nil {
				viol(ci, "reptrig-2oct-err", fmt.Sprintf("2-octet reporting triggers %02x%02x rejected: %v", o5, o6, err), nil)
				continue
			}
			res.Evaluations++
			c19CheckRepTrig(ci, &r, o5, o6, 0, viol)
		}
		// ---- Reporting triggers three-octet form and usage report triggers ----
		// value space 2^24 / 2^22 split into chunks; quick visits a stratified sample
		per24 := (1 << 24) / chunks
		step := 1
		if !full {
			step = 16
		}
		off := 0
		if !full {
			off = rng.Intn(step)
		}
		for v := ci*per24 + off; v < (ci+1)*per24; v += step {
			o5, o6, o7 := byte(v), byte(v>>8), byte(v>>16)
			var r report.ReportingTrigger
			if err := r.Unmarshal([]byte{o5, o6, o7}); err != nil {
				viol(ci, "reptrig-3oct-err", fmt.Sprintf("3-octet reporting triggers rejected: %v", err), nil)
				continue
			}
			res.Evaluations++
			if v != 0 {
				res.DistinctMore++
			}
			c19CheckRepTrig(ci, &r, o5, o6, o7, viol)
			// re-encoding must reproduce the three octets
			p := r.IE().Payload
			if len(p) != 3 || p[0] != o5 || p[1] != o6 || p[2] != o7 {
				viol(ci, "reptrig-encode", fmt.Sprintf("reporting triggers %02x %02x %02x re-encoded as %x", o5, o6, o7, p), nil)
			}
		}
		per22 := (1 << 22) / chunks
		if !full {
			step = 4
			off = rng.Intn(step)
		}
		for v := ci*per22 + off; v < (ci+1)*per22; v += step {
			t := report.UsageReportTrigger{Flags: uint32(v)}
			res.Evaluations++
			if v != 0 {
				res.DistinctMore++
			}
			acc := usaTrigAccessors(&t)
			p := t.IE().Payload
			if len(p) != 3 {
				viol(ci, "usatrig-len", fmt.Sprintf("usage report trigger encoded in %d octets", len(p)), nil)
				continue
			}
			for b, name := range refUsaTrig {
				want := v&(1<<uint(b)) != 0
				if acc[b] != want {
					viol(ci, "usatrig-acc-"+name, fmt.Sprintf("usage report trigger word %#x: %s()=%v want %v", v, name, acc[b], want), nil)
				}
				wire := p[b/8]&(1<<uint(b%8)) != 0
				if wire != want {
					viol(ci, "usatrig-wire-"+name, fmt.Sprintf("usage report trigger word %#x: %s on the wire (octet %d bit %d) = %v want %v",
						v, name, 5+b/8, 1+b%8, wire, want), nil)
				}
			}
			if p[2]&0xc0 != 0 {
				viol(ci, "usatrig-spare", fmt.Sprintf("usage report trigger word %#x sets spare bits: %x", v, p), nil)
			}
		}
	}, nil)
	if len(res.Samples) == 0 {
		res.Sample(map[string]interface{}{"apply_action_octets": "04 01", "expect": "BUFF,EDRT"})
		res.Sample(map[string]interface{}{"reporting_triggers_octets": "01 80 02", "expect": "PERIO,QUVTI,UPINT"})
		res.Sample(map[string]interface{}{"usage_report_trigger_word": "0x000801", "expect_wire": "01 08 00 (PERIO,TERMR)"})
	}
}

func c19CheckRepTrig(ci int, r *report.ReportingTrigger, o5, o6, o7 byte, viol func(int, string, string, interface{})) {
	want := uint32(o5) | uint32(o6)<<8 | uint32(o7)<<16
	if r.Flags != want {
		viol(ci, "reptrig-flags", fmt.Sprintf("reporting triggers %02x %02x %02x decoded to flags %#x", o5, o6, o7, r.Flags), nil)
	}
	acc := repTrigAccessors(r)
	oct := []byte{o5, o6, o7}
	for b, name := range refRepTrig {
		w := oct[b/8]&(1<<uint(b%8)) != 0
		if acc[b] != w {
			viol(ci, "reptrig-acc-"+name, fmt.Sprintf("reporting triggers %02x %02x %02x: %s()=%v want %v", o5, o6, o7, name, acc[b], w), nil)
		}
	}
}

// every reporting-trigger cause maps to the usage-report trigger of the same
// name and to no other
func c19SetTrig(res *vh.Result, ci int, viol func(int, string, string, interface{})) {
	idx := func(tbl []string, n string) int {
		for i, x := range tbl {
			if x == n {
				return i
			}
		}
		return -1
	}
	for b, name := range refRepTrig {
		var t report.UsageReportTrigger
		t.SetReportingTrigger(1 << uint(b))
		res.Evaluations++
		res.DistinctMore++
		j := idx(refUsaTrig, name)
		var want uint32
		if j >= 0 {
			want = 1 << uint(j)
		}
		if name == "REEMR" {
			// different names (REEMR / EMRRE): nothing or EMRRE are both acceptable
			if t.Flags != 0 && t.Flags != 1<<uint(idx(refUsaTrig, "EMRRE")) {
				viol(ci, "settrig-REEMR", fmt.Sprintf("reporting trigger REEMR mapped to usage trigger word %#x", t.Flags), nil)
			}
			continue
		}
		if t.Flags != want {
			viol(ci, "settrig-"+name, fmt.Sprintf("reporting trigger %s (bit %d) mapped to usage trigger word %#x, want %#x (%s)",
				name, b, t.Flags, want, name), nil)
		}
		// accumulation keeps earlier causes
		t2 := report.UsageReportTrigger{Flags: 1 << 11}
		t2.SetReportingTrigger(1 << uint(b))
		if t2.Flags != want|1<<11 {
			viol(ci, "settrig-acc-"+name, fmt.Sprintf("SetReportingTrigger(%s) on word 0x800 gave %#x", name, t2.Flags), nil)
		}
	}
	// zero, multi-bit and out-of-table words must not invent a cause that was not given
	for _, w := range []uint32{0, 3, 0x101, 1 << 18, 1 << 23, 1 << 31, 0xffffffff} {
		var t report.UsageReportTrigger
		t.SetReportingTrigger(w)
		res.Evaluations++
		// allowed: nothing, or exactly the same-name images of the bits given
		var img uint32
		for b, name := range refRepTrig {
			if w&(1<<uint(b)) != 0 {
				if j := idx(refUsaTrig, name); j >= 0 {
					img |= 1 << uint(j)
				}
			}
		}
		if t.Flags&^img != 0 {
			viol(ci, "settrig-invent", fmt.Sprintf("SetReportingTrigger(%#x) produced %#x, not a subset of the same-name image %#x", w, t.Flags, img), nil)
		}
	}
}

// Volume measurement: encoded payload must hold exactly the flagged fields, in
// order, big-endian (TS 29.244 §8.2.44), decoded here by an independent parser.
func c19Volume(res *vh.Result, ci int, rng *vh.Rng, viol func(int, string, string, interface{})) {
	for flags := 0; flags < 64; flags++ {
		for k := 0; k < 3; k++ {
			vals := [6]uint64{}
			for i := range vals {
				switch k {
				case 0:
					vals[i] = uint64(i+1) * 0x0101010101010101
				case 1:
					vals[i] = rng.U64()
				case 2:
					vals[i] = ^uint64(0) - uint64(i)
				}
			}
			m := report.VolumeMeasure{Flags: uint8(flags), TotalVolume: vals[0], UplinkVolume: vals[1], DownlinkVolume: vals[2],
				TotalPktNum: vals[3], UplinkPktNum: vals[4], DownlinkPktNum: vals[5]}
			p := m.IE().Payload
			res.Evaluations++
			if flags != 0 && k == 0 {
				res.DistinctMore++
			}
			want := []byte{byte(flags)}
			for i := 0; i < 6; i++ {
				if flags&(1<<uint(i)) != 0 {
					var b [8]byte
					binary.BigEndian.PutUint64(b[:], vals[i])
					want = append(want, b[:]...)
				}
			}
			if string(p) != string(want) {
				viol(ci, "volmeas-encode", fmt.Sprintf("volume measurement flags %#02x encoded as %x, want %x", flags, p, want), nil)
			}
		}
	}
	// SetFlags: volume fields always, packet counts iff MNOP
	for _, mnop := range []bool{false, true} {
		var m report.VolumeMeasure
		m.SetFlags(mnop)
		want := uint8(0x07)
		if mnop {
			want = 0x3f
		}
		res.Evaluations++
		if m.Flags != want {
			viol(ci, "volmeas-setflags", fmt.Sprintf("SetFlags(mnop=%v) = %#x want %#x", mnop, m.Flags, want), nil)
		}
	}
}
