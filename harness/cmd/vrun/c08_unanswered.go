package main

import (
	"encoding/binary"
	"fmt"
	"reflect"
	"time"

	"github.com/free5gc/go-upf/internal/verif/vh"
)

// c08Unanswered: requests that the UPF does not answer, or answers with an error cause, although they carry rule
// IEs - a Session Modification Request whose optional Node ID IE cannot be decoded, in front of, between or
// behind Create/Update/Remove IEs for existing and new rules. Whatever the UPF does with such a request, the
// property allows two outcomes only: it is accepted (then nothing is demanded here), or it is rejected / not
// answered - and then the session, node and transaction state and the data plane are what they were before,
// and no data-plane call was made.
func c08Unanswered(res *vh.Result, ci int, rng *vh.Rng) {
	dp := vh.NewModelDP()
	tap := &vh.Tap{Inner: dp}
	vh.TakeFatals()
	env, err := vh.StartEnv(tap, vh.EnvOpts{})
	if err != nil {
		res.Inconc("start: " + err.Error())
		return
	}
	defer env.Stop()
	s, err := vh.NewSMF(2, env.UPF, 0)
	if err != nil {
		res.Inconc("smf: " + err.Error())
		return
	}
	defer s.Close()
	seq := s.NextSeq()
	s.SendFrom(0, vh.BuildMsg(vh.MAssocReq, nil, seq, vh.NodeIDv4(s.IP), vh.RecoveryTS(1)))
	if s.WaitRsp(seq, 2e9) == nil {
		res.Inconc("association unanswered")
		return
	}
	seq = s.NextSeq()
	zero := uint64(0)
	s.SendFrom(0, vh.BuildMsg(vh.MEstReq, &zero, seq, vh.NodeIDv4(s.IP), vh.FSEIDv4(0x90, s.IP),
		vh.Rule{Kind: "FAR", ID: 1, Action: 2}.CreateIE(), vh.Rule{Kind: "QER", ID: 1, QFI: 5}.CreateIE(),
		vh.Rule{Kind: "URR", ID: 1, Method: 2, Trig: 2}.CreateIE(), vh.Rule{Kind: "PDR", ID: 1, FAR: 1, URRs: []uint32{1}}.CreateIE()))
	d := s.WaitRsp(seq, 2e9)
	if d == nil || d.M == nil || d.M.Find(vh.TFSEID) == nil {
		res.Inconc("establishment unanswered")
		return
	}
	up := binary.BigEndian.Uint64(d.M.Find(vh.TFSEID).V[1:9])
	badNodeIDs := [][]byte{
		{3, 10, 0, 0, 2}, // node id type 3 does not exist
		{0, 10, 0},       // IPv4 node id, truncated
		{1, 1, 2, 3},     // IPv6 node id, truncated
		{},               // empty
		{15},             // spare type, no value
	}
	var shape []string
	n := rng.Range(2, 5)
	for k := 0; k < n; k++ {
		bad := vh.Raw(vh.TNodeID, badNodeIDs[rng.Intn(len(badNodeIDs))]...)
		var rules []*vh.IE
		for j := rng.Range(1, 3); j > 0; j-- {
			switch rng.Intn(5) {
			case 0:
				rules = append(rules, vh.Rule{Kind: "FAR", ID: uint64(7 + k), Action: 2}.CreateIE())
			case 1:
				rules = append(rules, vh.Rule{Kind: "FAR", ID: 1, Action: 1}.UpdateIE())
			case 2:
				rules = append(rules, vh.Rule{Kind: "PDR", ID: 1}.RemoveIE())
			case 3:
				rules = append(rules, vh.Rule{Kind: "URR", ID: uint64(20 + k), Method: 2, Trig: 2}.CreateIE())
			default:
				rules = append(rules, vh.Rule{Kind: "QER", ID: 1, QFI: 9}.UpdateIE())
			}
		}
		pos := rng.Intn(len(rules) + 1)
		ies := append(append(append([]*vh.IE{}, rules[:pos]...), bad), rules[pos:]...)
		if err := env.Barrier(); err != nil {
			res.Inconc("barrier: " + err.Error())
			return
		}
		pre, dpPre, ncall := env.Srv.VerifSnapshot(), dp.Table(), len(tap.Calls)
		seq = s.NextSeq()
		s.SendFrom(0, vh.BuildMsg(vh.MModReq, &up, seq, ies...))
		// no wall-clock verdict: the barrier (queues empty, a heartbeat round trip through the same receive queue,
		// queues empty) proves that the loop is done with the request; a response, if there is one, was written to
		// the loopback socket before the heartbeat's and is already in this SMF's socket buffer
		err := env.Barrier()
		rsp := s.WaitRsp(seq, 20*time.Millisecond)
		if err != nil {
			if fs := vh.TakeFatals(); len(fs) > 0 {
				res.Violate(ci, vh.FaultSig(fs[0]), "fatal after a modification with an undecodable Node ID: "+fs[0], nil)
				return
			}
			res.Inconc("barrier: " + err.Error())
			return
		}
		outcome := "unanswered"
		if rsp != nil && rsp.M != nil {
			if rsp.M.CauseVal() == 1 {
				outcome = "accepted"
			} else {
				outcome = "rejected"
			}
		}
		shape = append(shape, fmt.Sprintf("%s@%d/%d", outcome, pos, len(rules)))
		res.Count("requests_with_undecodable_node_id_"+outcome, 1)
		if outcome == "accepted" {
			continue
		}
		post, dpPost := env.Srv.VerifSnapshot(), dp.Table()
		w := map[string]interface{}{"node_id_payload": fmt.Sprintf("%x", bad.V), "node_id_position": pos, "rule_ies": len(rules), "outcome": outcome}
		if len(tap.Calls) > ncall {
			w["calls"] = tap.Calls[ncall:]
			res.Violate(ci, "C08:side-effect-calls", fmt.Sprintf("a Session Modification Request that was %s (undecodable Node ID IE) caused %d data-plane calls", outcome, len(tap.Calls)-ncall), w)
		}
		if !reflect.DeepEqual(pre.Slots, post.Slots) || !reflect.DeepEqual(pre.Free, post.Free) || !reflect.DeepEqual(pre.Nodes, post.Nodes) {
			res.Violate(ci, "C08:side-effect-state", fmt.Sprintf("a Session Modification Request that was %s (undecodable Node ID IE) changed session or node state", outcome), w)
		}
		if !reflect.DeepEqual(dpPre, dpPost) {
			res.Violate(ci, "C08:side-effect-dataplane", fmt.Sprintf("a Session Modification Request that was %s (undecodable Node ID IE) changed the data plane", outcome), w)
		}
	}
	if fs := vh.TakeFatals(); len(fs) > 0 {
		res.Violate(ci, vh.FaultSig(fs[0]), "fatal: "+fs[0], nil)
	}
	res.Eval(vh.Sig("unanswered", shape))
}
