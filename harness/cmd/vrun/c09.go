package main

import (
	"bytes"
	"encoding/binary"
	"fmt"
	"os"
	"reflect"
	"strings"
	"time"

	"github.com/free5gc/go-upf/internal/pfcp"
	"github.com/free5gc/go-upf/internal/report"
	"github.com/free5gc/go-upf/internal/verif/vh"
)

func init() { checks["c09"] = runC09 }

type c09Ev struct {
	K string `json:"k"` // report expire respond wrongpeer wrongport dup badseq
	S int    `json:"s"` // report: session index; others: index of the outstanding request (in order of creation)
}

type c09Case struct {
	MaxRetrans uint8   `json:"max_retrans"`
	TxSeq      uint32  `json:"tx_seq"`
	Evs        []c09Ev `json:"events"`
}

type c09Req struct {
	sess    int
	node    int
	wire    uint32
	bytes   []byte
	retries int
	done    bool // answered or abandoned
	why     string
	id      string // transaction id in the server's table
}

var c09Kinds = []string{"report", "expire", "respond", "wrongpeer", "dup"}

func c09Run(c *c09Case) (finds [][2]string, abort string, stats map[string]int) {
	stats = map[string]int{}
	dp := vh.NewModelDP()
	tap := &vh.Tap{Inner: dp}
	vh.TakeFatals()
	env, err := vh.StartEnv(tap, vh.EnvOpts{MaxRetrans: c.MaxRetrans})
	if err != nil {
		return nil, "start: " + err.Error(), stats
	}
	var smfs []*vh.SMF
	defer func() {
		for _, s := range smfs {
			s.Close()
		}
		env.Stop()
	}()
	add := func(sig, desc string) { finds = append(finds, [2]string{"C09:" + sig, desc}) }
	for n := 0; n < 2; n++ {
		s, err := vh.NewSMF(n+2, env.UPF, 1)
		if err != nil {
			return nil, "smf: " + err.Error(), stats
		}
		smfs = append(smfs, s)
	}
	// preamble: 2 nodes, 3 sessions (two of node 0, one of node 1), each with URR 1
	type sess struct {
		node   int
		up, cp uint64
	}
	var sessions []sess
	for n, s := range smfs {
		seq := s.NextSeq()
		s.SendFrom(0, vh.BuildMsg(vh.MAssocReq, nil, seq, vh.NodeIDv4(s.IP), vh.RecoveryTS(1)))
		if env.Barrier() != nil || s.WaitRsp(seq, 2e9) == nil {
			return nil, "preamble association unanswered", stats
		}
		for k := 0; k < 2-n; k++ {
			seq = s.NextSeq()
			zero := uint64(0)
			cp := uint64(0x50 + k)
			s.SendFrom(0, vh.BuildMsg(vh.MEstReq, &zero, seq, vh.NodeIDv4(s.IP), vh.FSEIDv4(cp, s.IP),
				vh.Rule{Kind: "URR", ID: 1, Method: 2, Trig: 2}.CreateIE()))
			if env.Barrier() != nil {
				return nil, "preamble barrier", stats
			}
			d := s.WaitRsp(seq, 2e9)
			if d == nil || d.M == nil || d.M.Find(vh.TFSEID) == nil {
				return nil, "preamble establishment unanswered", stats
			}
			sessions = append(sessions, sess{n, binary.BigEndian.Uint64(d.M.Find(vh.TFSEID).V[1:9]), cp})
		}
	}
	env.Srv.VerifSetTxSeq(c.TxSeq)
	var reqs []*c09Req
	serial := uint64(0)
	seenRep := map[*vh.SMF]int{}
	takeAll := func() (out []*vh.Datagram, at []int) {
		for n, s := range smfs {
			s.Pump()
			rs := s.ReportsSnapshot()
			for _, d := range rs[seenRep[s]:] {
				out = append(out, d)
				at = append(at, n)
			}
			seenRep[s] = len(rs)
			for _, d := range s.Take() {
				out = append(out, d)
				at = append(at, n)
			}
		}
		return
	}
	for ei, ev := range c.Evs {
		pre := env.Srv.VerifSnapshot()
		switch ev.K {
		case "report":
			ss := sessions[ev.S%len(sessions)]
			serial++
			r := vh.UniqueUSAR(1, serial)
			r.USARTrigger.Flags = report.USAR_TRIG_VOLTH
			env.Srv.NotifySessReport(report.SessReport{SEID: ss.up, Reports: []report.Report{r}})
			if err := env.Barrier(); err != nil {
				return finds, "barrier: " + err.Error(), stats
			}
			ds, at := takeAll()
			post := env.Srv.VerifSnapshot()
			if len(ds) != 1 {
				add("report-datagram-count", fmt.Sprintf("event %d: a usage report produced %d datagrams, want one Session Report Request", ei, len(ds)))
				if len(ds) == 0 {
					continue
				}
			}
			d := ds[0]
			if at[0] != ss.node || d.Sock != 0 || d.M == nil || d.M.Type != vh.MRepReq {
				add("report-misdelivered", fmt.Sprintf("event %d: Session Report Request expected at SMF %d main socket, got %v at SMF %d socket %d", ei, ss.node, d.M, at[0], d.Sock))
				continue
			}
			if d.M.Seq > 0xffffff {
				add("seq-out-of-range", fmt.Sprintf("event %d: sequence number %#x", ei, d.M.Seq))
			}
			for _, o := range reqs {
				if !o.done && o.wire == d.M.Seq {
					add("seq-not-distinct", fmt.Sprintf("event %d: new request uses sequence number %d, which outstanding request #%d still holds", ei, d.M.Seq, indexOf(reqs, o)))
				}
			}
			// find the new transaction id
			id := ""
			old := map[string]bool{}
			for _, t := range pre.Tx {
				old[t.ID] = true
			}
			for _, t := range post.Tx {
				if !old[t.ID] {
					id = t.ID
				}
			}
			if id == "" {
				add("no-bookkeeping", fmt.Sprintf("event %d: no transaction entry for the new request", ei))
			}
			reqs = append(reqs, &c09Req{sess: ev.S % len(sessions), node: ss.node, wire: d.M.Seq, bytes: d.B, id: id})
			stats["requests"]++
		default:
			if len(reqs) == 0 {
				continue
			}
			k := ev.S % len(reqs)
			q := reqs[k]
			ss := sessions[q.sess]
			s := smfs[q.node]
			rsp := vh.BuildMsg(vh.MRepRsp, &ss.up, q.wire, vh.Cause(vh.CauseAccepted))
			switch ev.K {
			case "expire":
				if q.id == "" {
					continue
				}
				env.Srv.NotifyTransTimeout(pfcp.TX, q.id)
			case "respond":
				s.SendFrom(0, rsp)
			case "dup":
				s.SendFrom(0, rsp)
				s.SendFrom(0, rsp)
			case "wrongpeer":
				smfs[1-q.node].SendFrom(0, rsp)
			case "wrongport":
				s.SendFrom(1, rsp)
			case "badseq":
				s.SendFrom(0, vh.BuildMsg(vh.MRepRsp, &ss.up, (q.wire+0x5555)&0xffffff, vh.Cause(vh.CauseAccepted)))
			}
			if err := env.Barrier(); err != nil {
				if fs := vh.TakeFatals(); len(fs) > 0 {
					add(vh.FaultSig(fs[0]), "fatal: "+fs[0])
					return finds, "", stats
				}
				return finds, "barrier: " + err.Error(), stats
			}
			ds, at := takeAll()
			post := env.Srv.VerifSnapshot()
			inTx := func(id string) bool {
				for _, t := range post.Tx {
					if t.ID == id {
						return true
					}
				}
				return false
			}
			if !reflect.DeepEqual(pre.Slots, post.Slots) {
				add("side-effect", fmt.Sprintf("event %d (%s): session state changed", ei, ev.K))
			}
			switch ev.K {
			case "expire":
				stats["expiries"]++
				switch {
				case q.done:
					if len(ds) > 0 {
						add("retransmit-after-"+q.why, fmt.Sprintf("event %d: request #%d (seq %d) was %s but its timer expiry produced %d datagrams", ei, k, q.wire, q.why, len(ds)))
					}
				case q.retries < int(c.MaxRetrans):
					if len(ds) != 1 {
						add("retransmission-count", fmt.Sprintf("event %d: expiry %d of request #%d produced %d datagrams, want 1 retransmission (max %d)", ei, q.retries+1, k, len(ds), c.MaxRetrans))
					} else {
						if at[0] != q.node || ds[0].Sock != 0 {
							add("retransmission-misdelivered", fmt.Sprintf("event %d: retransmission arrived at SMF %d socket %d", ei, at[0], ds[0].Sock))
						}
						if !bytes.Equal(ds[0].B, q.bytes) {
							add("retransmission-differs", fmt.Sprintf("event %d: retransmission %x differs from the original %x", ei, ds[0].B, q.bytes))
						}
					}
					q.retries++
					stats["retransmissions"]++
					if !inTx(q.id) {
						add("entry-lost", fmt.Sprintf("event %d: request #%d still has retries left but its bookkeeping is gone", ei, k))
					}
				default:
					if len(ds) > 0 {
						add("too-many-retransmissions", fmt.Sprintf("event %d: request #%d retransmitted beyond the configured %d retries", ei, k, c.MaxRetrans))
					}
					q.done, q.why = true, "abandoned"
					stats["abandoned"]++
					if inTx(q.id) {
						add("entry-not-released", fmt.Sprintf("event %d: request #%d was abandoned after the last retry but its bookkeeping remains", ei, k))
					}
				}
			case "respond", "dup":
				if len(ds) > 0 {
					add("response-triggered-datagram", fmt.Sprintf("event %d: a Session Report Response produced %d datagrams", ei, len(ds)))
				}
				if !q.done {
					q.done, q.why = true, "answered"
					stats["answered"]++
				}
				if q.id != "" && inTx(q.id) {
					add("entry-not-released", fmt.Sprintf("event %d: request #%d (wire seq %d, id %s) was answered by its peer but its bookkeeping remains", ei, k, q.wire, q.id))
				}
			case "wrongpeer", "wrongport", "badseq":
				stats["non_matching_responses"]++
				if len(ds) > 0 {
					add("response-triggered-datagram", fmt.Sprintf("event %d: a non-matching response produced %d datagrams", ei, len(ds)))
				}
				if !reflect.DeepEqual(pre.Tx, post.Tx) {
					add("non-matching-response-effect", fmt.Sprintf("event %d: a %s response changed the transaction table", ei, ev.K))
				}
			}
		}
	}
	if fs := vh.TakeFatals(); len(fs) > 0 {
		add(vh.FaultSig(fs[0]), "fatal: "+fs[0])
	}
	return finds, "", stats
}

// ---- real timers: an expiry that is already queued when the answer is handled ----
//
// The retransmission timers really run (tens of milliseconds). While the event
// loop is held inside a data-plane call, the timers of the outstanding requests
// fire (their expiries queue up) and the peer's responses queue up as well;
// when the loop is released Go's select picks the order. Whatever it picks:
// a request whose response the UPF has handled is never sent again, and an
// unanswered one is sent at most 1+MaxRetrans times. "Handled" is decided on
// the wire: everything the UPF sent before it answered a later heartbeat from
// the same socket precedes the heartbeat response in that socket's queue.

type c09StaleCase struct {
	MaxRetrans uint8  `json:"max_retrans"`
	RTms       int    `json:"retrans_timeout_ms"`
	N          int    `json:"outstanding"`
	Answer     []bool `json:"answered_while_the_loop_is_busy"`
}

func c09Stale(ci int, c *c09StaleCase, res *vh.Result) (finds [][2]string, abort string, sig string) {
	add := func(sg, desc string) { finds = append(finds, [2]string{"C09:" + sg, desc}) }
	dp := vh.NewModelDP()
	gate := make(chan struct{})
	entered := make(chan struct{}, 1)
	tap := &vh.Tap{Inner: dp}
	tap.Delay = func(dc *vh.DPCall) {
		if dc.Op == "Create" && dc.Kind == "FAR" && dc.ID == 99 {
			entered <- struct{}{}
			<-gate
		}
	}
	vh.TakeFatals()
	rt := time.Duration(c.RTms) * time.Millisecond
	env, err := vh.StartEnv(tap, vh.EnvOpts{MaxRetrans: c.MaxRetrans, RetransTimeout: rt})
	if err != nil {
		return nil, "start: " + err.Error(), ""
	}
	s, err := vh.NewSMF(2, env.UPF, 0)
	if err != nil {
		env.Stop()
		return nil, "smf: " + err.Error(), ""
	}
	released := false
	defer func() {
		if !released {
			close(gate)
		}
		s.Close()
		env.Stop()
	}()
	seq := s.NextSeq()
	s.SendFrom(0, vh.BuildMsg(vh.MAssocReq, nil, seq, vh.NodeIDv4(s.IP), vh.RecoveryTS(1)))
	if s.WaitRsp(seq, 2e9) == nil {
		return nil, "association unanswered", ""
	}
	seq = s.NextSeq()
	zero := uint64(0)
	s.SendFrom(0, vh.BuildMsg(vh.MEstReq, &zero, seq, vh.NodeIDv4(s.IP), vh.FSEIDv4(0x90, s.IP), vh.Rule{Kind: "URR", ID: 1, Method: 2, Trig: 2}.CreateIE()))
	d := s.WaitRsp(seq, 2e9)
	if d == nil || d.M == nil || d.M.Find(vh.TFSEID) == nil {
		return nil, "establishment unanswered", ""
	}
	up := binary.BigEndian.Uint64(d.M.Find(vh.TFSEID).V[1:9])
	// hold the loop inside Create FAR 99
	mseq := s.NextSeq()
	s.SendFrom(0, vh.BuildMsg(vh.MModReq, &up, mseq, vh.Rule{Kind: "FAR", ID: 99, Action: 1}.CreateIE()))
	select {
	case <-entered:
	case <-time.After(5 * time.Second):
		return nil, "the gated call was not reached", ""
	}
	// the reports queue up behind it; release once so that they go out and their timers start, then hold again
	for k := 0; k < c.N; k++ {
		r := vh.UniqueUSAR(1, uint64(k+1))
		r.USARTrigger.Flags = report.USAR_TRIG_VOLTH
		env.Srv.NotifySessReport(report.SessReport{SEID: up, Reports: []report.Report{r}})
	}
	m2 := s.NextSeq()
	s.SendFrom(0, vh.BuildMsg(vh.MModReq, &up, m2, vh.Rule{Kind: "FAR", ID: 99, Action: 1}.CreateIE()))
	gate <- struct{}{} // first modification continues; select order between srCh and rcvCh is the runtime's
	select {
	case <-entered:
	case <-time.After(5 * time.Second):
		return nil, "the second gated call was not reached", ""
	}
	// which requests are out? (those sent before the loop entered the second gated call)
	s.Pump()
	first := map[uint32][]byte{}
	var order []uint32
	for _, d := range s.ReportsSnapshot() {
		if d.M != nil {
			if _, ok := first[d.M.Seq]; !ok {
				first[d.M.Seq] = d.B
				order = append(order, d.M.Seq)
			}
		}
	}
	if len(order) == 0 {
		// select served the second modification before any report: nothing outstanding while the loop is held
		released = true
		close(gate)
		return nil, "", ""
	}
	// wait for the real timers of all of them to have fired at least once more: their expiries sit in the queue
	// (best effort: if no expiry shows up in the queue within a few timeouts the case goes on without that interleaving -
	// whether timers run at all is decided at the end, on the requests that are never answered)
	deadline := time.Now().Add(5*rt + 300*time.Millisecond)
	for {
		_, _, nto := env.Srv.VerifQueueLens()
		if nto >= len(order) {
			break
		}
		if time.Now().After(deadline) {
			res.Count("real_timer_cases_without_a_queued_expiry", 1)
			break
		}
		time.Sleep(time.Millisecond)
	}
	answered := map[uint32]bool{}
	nans := 0
	for k, q := range order {
		if k < len(c.Answer) && c.Answer[k] {
			s.SendFrom(0, vh.BuildMsg(vh.MRepRsp, &up, q, vh.Cause(vh.CauseAccepted)))
			answered[q] = true
			nans++
		}
	}
	deadline = time.Now().Add(5 * time.Second)
	for {
		nrcv, _, _ := env.Srv.VerifQueueLens()
		if nrcv >= nans {
			break
		}
		if time.Now().After(deadline) {
			released = true
			close(gate)
			return nil, "responses did not reach the receive queue", ""
		}
		time.Sleep(time.Millisecond)
	}
	copiesHeld := map[uint32]int{}
	s.Pump()
	for _, d := range s.ReportsSnapshot() {
		if d.M != nil {
			copiesHeld[d.M.Seq]++
		}
	}
	released = true
	close(gate)
	// marker: a heartbeat from the same socket, sent after the responses
	hseq := s.NextSeq()
	s.SendFrom(0, vh.BuildMsg(vh.MHeartbeatReq, nil, hseq, vh.RecoveryTS(3)))
	hb := s.WaitRsp(hseq, 5*time.Second)
	if hb == nil {
		if fs := vh.TakeFatals(); len(fs) > 0 {
			add(vh.FaultSig(fs[0]), "fatal: "+fs[0])
			return finds, "", ""
		}
		// the server no longer answers: its loop is blocked. Whether a loop can be wedged is C18's subject and not
		// decided here - with one exception that needs no waiting: the loop sitting *for ever* (operation on a nil
		// channel, empty select: nothing can wake it) inside the handling of a UPF-initiated transaction, i.e. matching
		// or retiring a request is what stopped the server. Anything else stays inconclusive. Stopping the server
		// would hang as well, so this worker process is given up and the run continues in a fresh one.
		for _, g := range upfGoroutines() {
			if blockedForever(g.State) && (strings.Contains(g.Inner, "pfcp.(*TxTransaction)") || strings.Contains(g.Own, "pfcp.(*TxTransaction)")) {
				res.Violate(ci, "C09:transaction-handling-blocks-for-ever:"+strings.ReplaceAll(g.State, " ", "-")+"@"+shortFn(g.Own),
					fmt.Sprintf("after the answers to requests whose retransmission timer had already fired were handled, the UPF stopped answering: goroutine %s is blocked for ever (%s) in %s", g.Role, g.State, g.Inner),
					map[string]interface{}{"case": c, "goroutine": g})
				res.Eval("")
				res.NextCase = ci + 1
				res.Write(false)
				os.Exit(3)
			}
		}
		res.Inconc(fmt.Sprintf("case %d: the UPF stopped answering after the held loop was released (marker heartbeat unanswered for 5 s)", ci))
		res.Eval("")
		res.NextCase = ci + 1
		res.Write(false)
		os.Exit(3)
	}
	// let every timer that is (wrongly or rightly) still armed run out (generous: the verdicts below that depend on it
	// are bounded-progress verdicts)
	time.Sleep(time.Duration(int(c.MaxRetrans)+3)*rt + 400*time.Millisecond)
	h2 := s.NextSeq()
	s.SendFrom(0, vh.BuildMsg(vh.MHeartbeatReq, nil, h2, vh.RecoveryTS(3)))
	if s.WaitRsp(h2, 5*time.Second) == nil {
		return nil, "closing heartbeat unanswered", ""
	}
	total := map[uint32]int{}
	after := map[uint32]int{}
	for _, d := range s.ReportsSnapshot() {
		if d.M == nil {
			continue
		}
		total[d.M.Seq]++
		if d.T > hb.T {
			after[d.M.Seq]++
		}
		if b, ok := first[d.M.Seq]; ok && !bytes.Equal(b, d.B) {
			add("retransmission-differs", fmt.Sprintf("a copy of request %d differs from the original", d.M.Seq))
		}
	}
	var shape []string
	for _, q := range order {
		if answered[q] {
			if after[q] > 0 {
				add("retransmitted-after-answer", fmt.Sprintf("request %d was answered (the UPF had handled the response before it answered the marker heartbeat) but %d more copies followed (%d in total, max retries %d): a timer expiry queued before the response was still acted on",
					q, after[q], total[q], c.MaxRetrans))
			}
			if total[q] == copiesHeld[q] {
				res.Count("stale_expiries_observed(answer_handled_before_the_queued_expiry)", 1)
				shape = append(shape, "answer-first")
			} else {
				res.Count("expiry_handled_before_the_queued_answer", 1)
				shape = append(shape, "expiry-first")
			}
		} else {
			if total[q] > 1+int(c.MaxRetrans) {
				add("too-many-retransmissions", fmt.Sprintf("unanswered request %d was sent %d times, max retries %d", q, total[q], c.MaxRetrans))
			}
			if total[q] < 1+int(c.MaxRetrans) {
				res.Count("unanswered_requests_with_fewer_copies_than_retries_within_the_wait(not_decided)", 1)
			}
			shape = append(shape, fmt.Sprintf("unanswered-%d", total[q]))
		}
	}
	post := env.Srv.VerifSnapshot()
	for _, t := range post.Tx {
		if answered[t.Seq] {
			add("entry-not-released", fmt.Sprintf("request %d was answered but its bookkeeping remains", t.Seq))
		} else if _, mine := first[t.Seq]; mine {
			// bounded progress: the retransmission timer runs out (1+MaxRetrans)*timeout after the request went out; two
			// further periods and 400 ms later the request must have been given up
			add("unanswered-request-never-given-up", fmt.Sprintf("request %d was never answered; %d ms after it was sent (retransmission timeout %d ms, %d retries) it is still outstanding (sent %d times)",
				t.Seq, (int(c.MaxRetrans)+3)*c.RTms+400, c.RTms, c.MaxRetrans, total[t.Seq]))
		}
	}
	if fs := vh.TakeFatals(); len(fs) > 0 {
		add(vh.FaultSig(fs[0]), "fatal: "+fs[0])
	}
	res.Count("real_timer_requests", int64(len(order)))
	return finds, "", vh.Sig("stale", c.MaxRetrans, c.N, shape)
}

func indexOf(rs []*c09Req, r *c09Req) int {
	for i, x := range rs {
		if x == r {
			return i
		}
	}
	return -1
}

func runC09(res *vh.Result) {
	res.Rule = "event sequences over {report s, expire k, respond k, wrong-peer respond k, duplicate respond k, wrong-port respond, bad-sequence respond} " +
		"for MaxRetrans 0..3 and request counters at 0, mid-range, 2^24-3..2^24+3, 2^32-3 and random positions; all sequences up to the tier's depth over " +
		"the 5-letter core alphabet are enumerated, then random sequences to depth 30; non-trivial = at least one request was created and one expiry or " +
		"response event applied to it; distinct = distinct (configuration, event sequence)"
	res.Assumptions = []string{
		"timer expiry is injected through the exported NotifyTransTimeout with ids read from the transaction table (real timers 1 h)",
		"the request counter is positioned through a build-tagged hook before the first report",
	}
	depth := vh.Tiered(4, 5)
	pow := 1
	for i := 0; i < depth; i++ {
		pow *= 5
	}
	positions := []uint32{0, 1<<24 - 2, 1 << 24, 1<<32 - 2, 77777}
	nexh := pow * 4 * len(positions) // x MaxRetrans x positions
	if !vh.Thorough() {
		nexh = pow * 4 * 2
	}
	nrand := vh.Tiered(3000, 150000)
	nstale := vh.Tiered(96, 4000)
	res.Cases(nexh+nrand+nstale, func(i int, rng *vh.Rng) {
		if i >= nexh+nrand {
			c := c09StaleCase{MaxRetrans: uint8(rng.Intn(4)), RTms: rng.Range(15, 40), N: rng.Range(1, 3)}
			for k := 0; k < c.N; k++ {
				c.Answer = append(c.Answer, rng.Chance(3, 4))
			}
			finds, abort, sig := c09Stale(i, &c, res)
			if abort != "" {
				res.Inconc(fmt.Sprintf("case %d: %s", i, abort))
			}
			seen := map[string]bool{}
			for _, f := range finds {
				if !seen[f[0]] {
					seen[f[0]] = true
					res.Violate(i, f[0], f[1], c)
				}
			}
			res.Eval(sig)
			res.Count("real_timer_cases", 1)
			return
		}
		var c c09Case
		if i < nexh {
			x := i
			a := x % pow
			x /= pow
			c.MaxRetrans = uint8(x % 4)
			x /= 4
			if vh.Thorough() {
				c.TxSeq = positions[x%len(positions)]
			} else {
				c.TxSeq = []uint32{0, 1<<24 - 2}[x%2]
			}
			// every sequence starts with a report so that the rest has something to act on
			c.Evs = append(c.Evs, c09Ev{K: "report", S: 0})
			for d := 0; d < depth; d++ {
				l := a % 5
				a /= 5
				c.Evs = append(c.Evs, c09Ev{K: c09Kinds[l], S: d % 2})
			}
		} else {
			c.MaxRetrans = uint8(rng.Intn(4))
			switch rng.Intn(6) {
			case 0:
				c.TxSeq = 0
			case 1:
				c.TxSeq = uint32(1<<24 - 3 + rng.Intn(7))
			case 2:
				c.TxSeq = uint32(uint64(1<<32) - uint64(1+rng.Intn(3)))
			case 3:
				c.TxSeq = rng.U32()
			case 4:
				c.TxSeq = uint32(rng.Intn(1 << 24))
			case 5:
				c.TxSeq = uint32(1<<25 - 2 + rng.Intn(4))
			}
			n := rng.Range(5, 30)
			all := []string{"report", "report", "expire", "expire", "expire", "respond", "wrongpeer", "wrongport", "dup", "badseq"}
			for d := 0; d < n; d++ {
				c.Evs = append(c.Evs, c09Ev{K: all[rng.Intn(len(all))], S: rng.Intn(4)})
			}
		}
		finds, abort, stats := c09Run(&c)
		if abort != "" {
			res.Inconc(fmt.Sprintf("case %d: %s", i, abort))
		}
		seen := map[string]bool{}
		for _, f := range finds {
			if !seen[f[0]] {
				seen[f[0]] = true
				res.Violate(i, f[0], f[1], c)
			}
		}
		sig := ""
		if stats["requests"] > 0 && stats["expiries"]+stats["answered"]+stats["non_matching_responses"] > 0 {
			sig = vh.Sig(vh.J(c))
		}
		res.Eval(sig)
		for k, v := range stats {
			res.Count(k, int64(v))
		}
		res.Count("events", int64(len(c.Evs)))
		if i == 7 || i == nexh {
			res.Sample(c)
		}
	}, nil)
}
