package main

import (
	"bytes"
	"encoding/binary"
	"fmt"
	"reflect"

	"github.com/free5gc/go-upf/internal/pfcp"
	"github.com/free5gc/go-upf/internal/report"
	"github.com/free5gc/go-upf/internal/verif/vh"
)

func init() { checks["c09"] = runC09 }

type c09Ev struct {
	K string `json:"k"` // report expire respond wrongpeer wrongport dup badseq
	S int    `json:"s"` // report: session index; others: index of the outstanding request (in order of creation)
}

type c09Case struct {
	MaxRetrans uint8   `json:"max_retrans"`
	TxSeq      uint32  `json:"tx_seq"`
	Evs        []c09Ev `json:"events"`
}

type c09Req struct {
	sess    int
	node    int
	wire    uint32
	bytes   []byte
	retries int
	done    bool // answered or abandoned
	why     string
	id      string // transaction id in the server's table
}

var c09Kinds = []string{"report", "expire", "respond", "wrongpeer", "dup"}

func c09Run(c *c09Case) (finds [][2]string, abort string, stats map[string]int) {
	stats = map[string]int{}
	dp := vh.NewModelDP()
	tap := &vh.Tap{Inner: dp}
	vh.TakeFatals()
	env, err := vh.StartEnv(tap, vh.EnvOpts{MaxRetrans: c.MaxRetrans})
	if err != nil {
		return nil, "start: " + err.Error(), stats
	}
	var smfs []*vh.SMF
	defer func() {
		for _, s := range smfs {
			s.Close()
		}
		env.Stop()
	}()
	add := func(sig, desc string) { finds = append(finds, [2]string{"C09:" + sig, desc}) }
	for n := 0; n < 2; n++ {
		s, err := vh.NewSMF(n+2, env.UPF, 1)
		if err != nil {
			return nil, "smf: " + err.Error(), stats
		}
		smfs = append(smfs, s)
	}
	// preamble: 2 nodes, 3 sessions (two of node 0, one of node 1), each with URR 1
	type sess struct {
		node   int
		up, cp uint64
	}
	var sessions []sess
	for n, s := range smfs {
		seq := s.NextSeq()
		s.SendFrom(0, vh.BuildMsg(vh.MAssocReq, nil, seq, vh.NodeIDv4(s.IP), vh.RecoveryTS(1)))
		if env.Barrier() != nil || s.WaitRsp(seq, 2e9) == nil {
			return nil, "preamble association unanswered", stats
		}
		for k := 0; k < 2-n; k++ {
			seq = s.NextSeq()
			zero := uint64(0)
			cp := uint64(0x50 + k)
			s.SendFrom(0, vh.BuildMsg(vh.MEstReq, &zero, seq, vh.NodeIDv4(s.IP), vh.FSEIDv4(cp, s.IP),
				vh.Rule{Kind: "URR", ID: 1, Method: 2, Trig: 2}.CreateIE()))
			if env.Barrier() != nil {
				return nil, "preamble barrier", stats
			}
			d := s.WaitRsp(seq, 2e9)
			if d == nil || d.M == nil || d.M.Find(vh.TFSEID) == nil {
				return nil, "preamble establishment unanswered", stats
			}
			sessions = append(sessions, sess{n, binary.BigEndian.Uint64(d.M.Find(vh.TFSEID).V[1:9]), cp})
		}
	}
	env.Srv.VerifSetTxSeq(c.TxSeq)
	var reqs []*c09Req
	serial := uint64(0)
	seenRep := map[*vh.SMF]int{}
	takeAll := func() (out []*vh.Datagram, at []int) {
		for n, s := range smfs {
			s.Pump()
			rs := s.ReportsSnapshot()
			for _, d := range rs[seenRep[s]:] {
				out = append(out, d)
				at = append(at, n)
			}
			seenRep[s] = len(rs)
			for _, d := range s.Take() {
				out = append(out, d)
				at = append(at, n)
			}
		}
		return
	}
	for ei, ev := range c.Evs {
		pre := env.Srv.VerifSnapshot()
		switch ev.K {
		case "report":
			ss := sessions[ev.S%len(sessions)]
			serial++
			r := vh.UniqueUSAR(1, serial)
			r.USARTrigger.Flags = report.USAR_TRIG_VOLTH
			env.Srv.NotifySessReport(report.SessReport{SEID: ss.up, Reports: []report.Report{r}})
			if err := env.Barrier(); err != nil {
				return finds, "barrier: " + err.Error(), stats
			}
			ds, at := takeAll()
			post := env.Srv.VerifSnapshot()
			if len(ds) != 1 {
				add("report-datagram-count", fmt.Sprintf("event %d: a usage report produced %d datagrams, want one Session Report Request", ei, len(ds)))
				if len(ds) == 0 {
					continue
				}
			}
			d := ds[0]
			if at[0] != ss.node || d.Sock != 0 || d.M == nil || d.M.Type != vh.MRepReq {
				add("report-misdelivered", fmt.Sprintf("event %d: Session Report Request expected at SMF %d main socket, got %v at SMF %d socket %d", ei, ss.node, d.M, at[0], d.Sock))
				continue
			}
			if d.M.Seq > 0xffffff {
				add("seq-out-of-range", fmt.Sprintf("event %d: sequence number %#x", ei, d.M.Seq))
			}
			for _, o := range reqs {
				if !o.done && o.wire == d.M.Seq {
					add("seq-not-distinct", fmt.Sprintf("event %d: new request uses sequence number %d, which outstanding request #%d still holds", ei, d.M.Seq, indexOf(reqs, o)))
				}
			}
			// find the new transaction id
			id := ""
			old := map[string]bool{}
			for _, t := range pre.Tx {
				old[t.ID] = true
			}
			for _, t := range post.Tx {
				if !old[t.ID] {
					id = t.ID
				}
			}
			if id == "" {
				add("no-bookkeeping", fmt.Sprintf("event %d: no transaction entry for the new request", ei))
			}
			for _, t := range post.Tx {
				if t.ID == id && !t.Timer {
					add("timer-not-armed", fmt.Sprintf("event %d: the new request has no retransmission timer", ei))
				}
			}
			reqs = append(reqs, &c09Req{sess: ev.S % len(sessions), node: ss.node, wire: d.M.Seq, bytes: d.B, id: id})
			stats["requests"]++
		default:
			if len(reqs) == 0 {
				continue
			}
			k := ev.S % len(reqs)
			q := reqs[k]
			ss := sessions[q.sess]
			s := smfs[q.node]
			rsp := vh.BuildMsg(vh.MRepRsp, &ss.up, q.wire, vh.Cause(vh.CauseAccepted))
			switch ev.K {
			case "expire":
				if q.id == "" {
					continue
				}
				env.Srv.NotifyTransTimeout(pfcp.TX, q.id)
			case "respond":
				s.SendFrom(0, rsp)
			case "dup":
				s.SendFrom(0, rsp)
				s.SendFrom(0, rsp)
			case "wrongpeer":
				smfs[1-q.node].SendFrom(0, rsp)
			case "wrongport":
				s.SendFrom(1, rsp)
			case "badseq":
				s.SendFrom(0, vh.BuildMsg(vh.MRepRsp, &ss.up, (q.wire+0x5555)&0xffffff, vh.Cause(vh.CauseAccepted)))
			}
			if err := env.Barrier(); err != nil {
				if fs := vh.TakeFatals(); len(fs) > 0 {
					add(vh.FaultSig(fs[0]), "fatal: "+fs[0])
					return finds, "", stats
				}
				return finds, "barrier: " + err.Error(), stats
			}
			ds, at := takeAll()
			post := env.Srv.VerifSnapshot()
			inTx := func(id string) bool {
				for _, t := range post.Tx {
					if t.ID == id {
						return true
					}
				}
				return false
			}
			if !reflect.DeepEqual(pre.Slots, post.Slots) {
				add("side-effect", fmt.Sprintf("event %d (%s): session state changed", ei, ev.K))
			}
			switch ev.K {
			case "expire":
				stats["expiries"]++
				switch {
				case q.done:
					if len(ds) > 0 {
						add("retransmit-after-"+q.why, fmt.Sprintf("event %d: request #%d (seq %d) was %s but its timer expiry produced %d datagrams", ei, k, q.wire, q.why, len(ds)))
					}
				case q.retries < int(c.MaxRetrans):
					if len(ds) != 1 {
						add("retransmission-count", fmt.Sprintf("event %d: expiry %d of request #%d produced %d datagrams, want 1 retransmission (max %d)", ei, q.retries+1, k, len(ds), c.MaxRetrans))
					} else {
						if at[0] != q.node || ds[0].Sock != 0 {
							add("retransmission-misdelivered", fmt.Sprintf("event %d: retransmission arrived at SMF %d socket %d", ei, at[0], ds[0].Sock))
						}
						if !bytes.Equal(ds[0].B, q.bytes) {
							add("retransmission-differs", fmt.Sprintf("event %d: retransmission %x differs from the original %x", ei, ds[0].B, q.bytes))
						}
					}
					q.retries++
					stats["retransmissions"]++
					if !inTx(q.id) {
						add("entry-lost", fmt.Sprintf("event %d: request #%d still has retries left but its bookkeeping is gone", ei, k))
					}
					for _, t := range post.Tx {
						if t.ID == q.id && !t.Timer {
							add("timer-not-armed", fmt.Sprintf("event %d: request #%d was retransmitted but its timer was not re-armed", ei, k))
						}
					}
				default:
					if len(ds) > 0 {
						add("too-many-retransmissions", fmt.Sprintf("event %d: request #%d retransmitted beyond the configured %d retries", ei, k, c.MaxRetrans))
					}
					q.done, q.why = true, "abandoned"
					stats["abandoned"]++
					if inTx(q.id) {
						add("entry-not-released", fmt.Sprintf("event %d: request #%d was abandoned after the last retry but its bookkeeping remains", ei, k))
					}
				}
			case "respond", "dup":
				if len(ds) > 0 {
					add("response-triggered-datagram", fmt.Sprintf("event %d: a Session Report Response produced %d datagrams", ei, len(ds)))
				}
				if !q.done {
					q.done, q.why = true, "answered"
					stats["answered"]++
				}
				if q.id != "" && inTx(q.id) {
					add("entry-not-released", fmt.Sprintf("event %d: request #%d (wire seq %d, id %s) was answered by its peer but its bookkeeping remains", ei, k, q.wire, q.id))
				}
			case "wrongpeer", "wrongport", "badseq":
				stats["non_matching_responses"]++
				if len(ds) > 0 {
					add("response-triggered-datagram", fmt.Sprintf("event %d: a non-matching response produced %d datagrams", ei, len(ds)))
				}
				if !reflect.DeepEqual(pre.Tx, post.Tx) {
					add("non-matching-response-effect", fmt.Sprintf("event %d: a %s response changed the transaction table", ei, ev.K))
				}
			}
		}
	}
	if fs := vh.TakeFatals(); len(fs) > 0 {
		add(vh.FaultSig(fs[0]), "fatal: "+fs[0])
	}
	return finds, "", stats
}

func indexOf(rs []*c09Req, r *c09Req) int {
	for i, x := range rs {
		if x == r {
			return i
		}
	}
	return -1
}

func runC09(res *vh.Result) {
	res.Rule = "event sequences over {report s, expire k, respond k, wrong-peer respond k, duplicate respond k, wrong-port respond, bad-sequence respond} " +
		"for MaxRetrans 0..3 and request counters at 0, mid-range, 2^24-3..2^24+3, 2^32-3 and random positions; all sequences up to the tier's depth over " +
		"the 5-letter core alphabet are enumerated, then random sequences to depth 30; non-trivial = at least one request was created and one expiry or " +
		"response event applied to it; distinct = distinct (configuration, event sequence)"
	res.Assumptions = []string{
		"timer expiry is injected through the exported NotifyTransTimeout with ids read from the transaction table (real timers 1 h)",
		"the request counter is positioned through a build-tagged hook before the first report",
	}
	depth := vh.Tiered(4, 5)
	pow := 1
	for i := 0; i < depth; i++ {
		pow *= 5
	}
	positions := []uint32{0, 1<<24 - 2, 1 << 24, 1<<32 - 2, 77777}
	nexh := pow * 4 * len(positions) // x MaxRetrans x positions
	if !vh.Thorough() {
		nexh = pow * 4 * 2
	}
	nrand := vh.Tiered(3000, 60000)
	res.Cases(nexh+nrand, func(i int, rng *vh.Rng) {
		var c c09Case
		if i < nexh {
			x := i
			a := x % pow
			x /= pow
			c.MaxRetrans = uint8(x % 4)
			x /= 4
			if vh.Thorough() {
				c.TxSeq = positions[x%len(positions)]
			} else {
				c.TxSeq = []uint32{0, 1<<24 - 2}[x%2]
			}
			// every sequence starts with a report so that the rest has something to act on
			c.Evs = append(c.Evs, c09Ev{K: "report", S: 0})
			for d := 0; d < depth; d++ {
				l := a % 5
				a /= 5
				c.Evs = append(c.Evs, c09Ev{K: c09Kinds[l], S: d % 2})
			}
		} else {
			c.MaxRetrans = uint8(rng.Intn(4))
			switch rng.Intn(6) {
			case 0:
				c.TxSeq = 0
			case 1:
				c.TxSeq = uint32(1<<24 - 3 + rng.Intn(7))
			case 2:
				c.TxSeq = uint32(uint64(1<<32) - uint64(1+rng.Intn(3)))
			case 3:
				c.TxSeq = rng.U32()
			case 4:
				c.TxSeq = uint32(rng.Intn(1 << 24))
			case 5:
				c.TxSeq = uint32(1<<25 - 2 + rng.Intn(4))
			}
			n := rng.Range(5, 30)
			all := []string{"report", "report", "expire", "expire", "expire", "respond", "wrongpeer", "wrongport", "dup", "badseq"}
			for d := 0; d < n; d++ {
				c.Evs = append(c.Evs, c09Ev{K: all[rng.Intn(len(all))], S: rng.Intn(4)})
			}
		}
		finds, abort, stats := c09Run(&c)
		if abort != "" {
			res.Inconc(fmt.Sprintf("case %d: %s", i, abort))
		}
		seen := map[string]bool{}
		for _, f := range finds {
			if !seen[f[0]] {
				seen[f[0]] = true
				res.Violate(i, f[0], f[1], c)
			}
		}
		sig := ""
		if stats["requests"] > 0 && stats["expiries"]+stats["answered"]+stats["non_matching_responses"] > 0 {
			sig = vh.Sig(vh.J(c))
		}
		res.Eval(sig)
		for k, v := range stats {
			res.Count(k, int64(v))
		}
		res.Count("events", int64(len(c.Evs)))
		if i == 7 || i == nexh {
			res.Sample(c)
		}
	}, nil)
}
