package main

import (
	"fmt"
	"net"
	"sync"

	"github.com/wmnsk/go-pfcp/ie"

	"github.com/free5gc/go-gtp5gnl"
	"github.com/free5gc/go-upf/internal/forwarder"
	"github.com/free5gc/go-upf/internal/verif/vh"
)

func init() { checks["c16"] = runC16 }

func ip4(ip net.IP) [4]byte {
	var o [4]byte
	if len(ip) >= 4 {
		copy(o[:], ip[:4])
		if len(ip) == 16 {
			if v4 := ip.To4(); v4 != nil {
				copy(o[:], v4)
			}
		}
	}
	return o
}

func mask4(m net.IPMask) [4]byte {
	var o [4]byte
	if len(m) >= 4 {
		copy(o[:], m[:4])
	}
	return o
}

func portsOf(p [][]uint16) ([][2]uint16, bool) {
	var out [][2]uint16
	for _, x := range p {
		switch len(x) {
		case 1:
			out = append(out, [2]uint16{x[0], x[0]})
		case 2:
			out = append(out, [2]uint16{x[0], x[1]})
		default:
			return nil, false
		}
	}
	return out, true
}

func sameFlow(a, b vh.RefFlow) bool { return fmt.Sprint(a) == fmt.Sprint(b) }

func runC16(res *vh.Result) {
	res.Rule = "strings generated from the IPFilterRule grammar (every protocol form, any/assigned/host/prefix with host bits, 0..8 port items, arbitrary spacing) " +
		"are parsed by ParseFlowDesc and by a reference parser and compared; the packed form is captured from Create PDR at the simulated kernel (uplink and " +
		"downlink PDRs) and decoded with gtp5gnl.DecodeFlowDesc and an independent decoder; junk strings (arbitrary bytes, token deletions/duplications, " +
		"out-of-range numbers, IPv6) only need to be handled without a fault; non-trivial = valid string with at least one port item or prefix; distinct = distinct strings"
	res.Assumptions = []string{
		"reference parser / packed-form decoder are harness code written from the grammar in the property statement and the gtp5g attribute layout",
		"'any'/'assigned' are sent as all-zero 16-octet address attributes; only their first 4 octets are compared",
	}
	ncases := vh.Tiered(80, 4000)
	per := 500
	res.Cases(ncases, func(ci int, rng *vh.Rng) {
		wg := &sync.WaitGroup{}
		d, err := vh.NewSimDriver(vh.SimDriverOpts{WG: wg, NoPerio: true, NoBuff: true})
		if err != nil {
			res.Inconc("sim driver: " + err.Error())
			return
		}
		defer func() { d.Close(); wg.Wait() }()
		for n := 0; n < per; n++ {
			junk := n%5 == 4
			var s string
			if junk {
				s = vh.GenJunkFlow(rng)
			} else {
				s = vh.GenFlow(rng)
			}
			res.Journal(ci, fmt.Sprintf("%q", s))
			ref, valid := vh.RefParseFlow(s)
			fd, perr := forwarder.ParseFlowDesc(s)
			nt := ""
			if valid {
				if len(ref.SrcPorts)+len(ref.DstPorts) > 0 || ref.SrcMask != [4]byte{} || ref.DstMask != [4]byte{} {
					nt = vh.Sig(s)
				}
				if perr != nil {
					res.Violate(ci, "C16:valid-rejected", fmt.Sprintf("valid flow description %q rejected: %v", s, perr), s)
					res.Eval(nt)
					continue
				}
				got := vh.RefFlow{Proto: fd.Proto}
				if fd.Action == "permit" {
					got.Action = 1
				}
				switch fd.Dir {
				case "in":
					got.Dir = 1
				case "out":
					got.Dir = 2
				}
				okp := true
				if fd.Src == nil || fd.Dst == nil {
					okp = false
				} else {
					got.SrcIP, got.SrcMask = ip4(fd.Src.IP), mask4(fd.Src.Mask)
					got.DstIP, got.DstMask = ip4(fd.Dst.IP), mask4(fd.Dst.Mask)
					var o1, o2 bool
					got.SrcPorts, o1 = portsOf(fd.SrcPorts)
					got.DstPorts, o2 = portsOf(fd.DstPorts)
					okp = o1 && o2
				}
				if !okp || !sameFlow(got, ref) {
					res.Violate(ci, "C16:parse-"+flowDiff(got, ref), fmt.Sprintf("%q parsed as {%v}, denotes {%v}", s, got, ref), s)
				}
			}
			// packed form through the real driver, downlink and uplink
			// the same string is translated repeatedly, for downlink and uplink PDRs of different sessions in
			// alternation: a translation must not depend on what the string was used for before
			for round, uplink := range []bool{false, true, false, true} {
				si := uint8(1)
				if uplink {
					si = 0
				}
				bid := uint32(n)
				g := vh.Grp(vh.TCreatePDR, vh.PDRID(uint16(n%60000+1)), vh.Precedence(1),
					vh.Grp(vh.TPDI, vh.SDFFilter(s, &bid), vh.SrcIntf(si)), vh.FARID(1))
				if s == "" {
					continue
				}
				pi, err := ie.Parse(g.Bytes())
				if err != nil {
					continue
				}
				d.K.TakeLog()
				seid := uint64(10 + round)
				_ = d.G.CreatePDR(seid, pi)
				var sdf *vh.NLA
				for _, l := range d.K.TakeLog() {
					if l.Cmd == vh.KCmdAddPDR {
						if pdi := vh.FindNLA(l.Attrs, vh.KPdrPDI); pdi != nil {
							sdf = vh.FindNLA(pdi.Kids, vh.KPdiSDF)
						}
					}
				}
				if !valid {
					continue
				}
				want := ref
				if uplink {
					want = ref.Swapped()
				}
				var fdA *vh.NLA
				if sdf != nil {
					fdA = vh.FindNLA(sdf.Kids, vh.KSdfFD)
				}
				if fdA == nil {
					res.Violate(ci, "C16:packed-missing", fmt.Sprintf("%q (uplink=%v): no flow description reached the data plane", s, uplink), s)
					continue
				}
				got, err := vh.FlowFromNLA(fdA)
				if err != nil || !sameFlow(got, want) {
					res.Violate(ci, "C16:packed-"+flowDiff(got, want), fmt.Sprintf("%q (uplink=%v): packed form decodes to {%v} (%v), denotes {%v}", s, uplink, got, err, want), s)
				}
				// the library decoder must agree as well
				lf, err := gtp5gnl.DecodeFlowDesc(vh.EncodeNLAs(fdA.Kids))
				if err != nil {
					res.Violate(ci, "C16:packed-undecodable", fmt.Sprintf("%q: gtp5gnl.DecodeFlowDesc: %v", s, err), s)
					continue
				}
				lg := vh.RefFlow{Action: lf.Action, Dir: lf.Dir, Proto: lf.Proto, SrcIP: ip4(lf.Src.IP), SrcMask: mask4(lf.Src.Mask),
					DstIP: ip4(lf.Dst.IP), DstMask: mask4(lf.Dst.Mask)}
				lg.SrcPorts, _ = portsOf(lf.SrcPorts)
				lg.DstPorts, _ = portsOf(lf.DstPorts)
				if !sameFlow(lg, want) {
					res.Violate(ci, "C16:packed-lib-"+flowDiff(lg, want), fmt.Sprintf("%q (uplink=%v): gtp5gnl decodes the packed form to {%v}, denotes {%v}", s, uplink, lg, want), s)
				}
				res.Count("packed_forms_checked", 1)
			}
			res.Eval(nt)
			if junk {
				res.Count("junk_strings", 1)
				if perr == nil {
					res.Count("junk_accepted", 1)
				}
			}
			if ci == 0 && (n == 0 || n == 4) {
				res.Sample(map[string]interface{}{"string": s, "valid": valid, "denotes": fmt.Sprint(ref)})
			}
		}
	}, func(ci int, p interface{}, stack string) {
		msg := fmt.Sprintf("panic: %v\n%s", p, stack)
		res.Violate(ci, "C16:"+vh.FaultSig(msg), "fault while handling a flow description (see journal / witness)", msg)
	})
}

func flowDiff(a, b vh.RefFlow) string {
	switch {
	case a.Action != b.Action:
		return "action"
	case a.Dir != b.Dir:
		return "direction"
	case a.Proto != b.Proto:
		return "protocol"
	case a.SrcIP != b.SrcIP || a.SrcMask != b.SrcMask:
		return "source"
	case a.DstIP != b.DstIP || a.DstMask != b.DstMask:
		return "destination"
	case fmt.Sprint(a.SrcPorts) != fmt.Sprint(b.SrcPorts):
		return "source-ports"
	default:
		return "destination-ports"
	}
}
