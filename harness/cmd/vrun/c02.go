package main

import (
	"fmt"
	"net"
	"os"
	"runtime/pprof"
	"sort"
	"strings"
	"sync"
	"syscall"
	"time"

	"github.com/wmnsk/go-pfcp/ie"

	"github.com/free5gc/go-upf/internal/report"
	"github.com/free5gc/go-upf/internal/verif/vh"
)

func init() {
	checks["c02"] = func(r *vh.Result) { runXlate(r, "C02") }
	checks["c03"] = func(r *vh.Result) { runXlate(r, "C03") }
}

var seidBounds = []uint64{1, 2, 0x7fffffff, 0xffffffff, 1 << 32, 1<<63 - 1, 1 << 63, ^uint64(0) - 1, ^uint64(0)}
var u32Bounds = []uint64{0, 1, 0x7fffffff, 0x80000000, 0xffffffff}

func pickU32(r *vh.Rng) uint32 { return uint32(r.Pick64(u32Bounds...)) }
func randIP(r *vh.Rng) net.IP {
	if r.Chance(1, 4) {
		return [][]byte{{0, 0, 0, 0}, {255, 255, 255, 255}, {127, 0, 0, 1}, {10, 0, 0, 1}}[r.Intn(4)]
	}
	return r.Bytes(4)
}

func shuffle(r *vh.Rng, c []*vh.IE) []*vh.IE {
	out := make([]*vh.IE, len(c))
	for i, p := range r.Perm(len(c)) {
		out[i] = c[p]
	}
	return out
}

// permuted returns a deep copy of the grouped IE with children (and
// grand-children of PDI / forwarding parameters) in a random order.
func permuted(r *vh.Rng, g *vh.IE) *vh.IE {
	out := &vh.IE{T: g.T}
	for _, c := range g.C {
		if c.C != nil {
			out.C = append(out.C, permuted(r, c))
		} else {
			out.C = append(out.C, c)
		}
	}
	out.C = shuffle(r, out.C)
	return out
}

func genPDR(r *vh.Rng, create bool) *vh.IE {
	t := uint16(vh.TCreatePDR)
	if !create {
		t = vh.TUpdatePDR
	}
	c := []*vh.IE{vh.PDRID(uint16(r.Pick64(0, 1, 0x7fff, 0x8000, 0xffff)))}
	if create || r.Bool() {
		c = append(c, vh.Precedence(pickU32(r)))
	}
	if create || r.Chance(2, 3) {
		var pdi []*vh.IE
		si := uint8(r.Intn(4))
		pdi = append(pdi, vh.SrcIntf(si))
		if r.Bool() {
			pdi = append(pdi, vh.FTEIDv4(pickU32(r), randIP(r)))
		}
		if r.Bool() {
			pdi = append(pdi, vh.UEIPv4(randIP(r), r.Bool()))
		}
		if r.Chance(1, 3) {
			pdi = append(pdi, vh.NetInst("internet"))
		}
		if r.Chance(1, 5) {
			pdi = append(pdi, vh.Raw(vh.TAppID, []byte("app1")...))
		}
		n := r.Intn(4)
		for i := 0; i < n; i++ {
			var bid *uint32
			if r.Bool() {
				v := pickU32(r)
				bid = &v
			}
			pdi = append(pdi, vh.SDFFilter(vh.GenFlow(r), bid))
		}
		c = append(c, vh.Grp(vh.TPDI, pdi...))
	}
	if r.Bool() {
		c = append(c, vh.OHR(uint8(r.Pick64(0, 1, 2, 6, 255))))
	}
	if create || r.Bool() {
		c = append(c, vh.FARID(pickU32(r)))
	}
	for i, n := 0, r.Intn(4); i < n; i++ {
		c = append(c, vh.QERID(pickU32(r)))
	}
	for i, n := 0, r.Intn(4); i < n; i++ {
		c = append(c, vh.URRID(pickU32(r)))
	}
	return vh.Grp(t, c...)
}

func genFAR(r *vh.Rng, create bool) *vh.IE {
	t, ft := uint16(vh.TCreateFAR), uint16(vh.TFwdParams)
	if !create {
		t, ft = vh.TUpdateFAR, vh.TUpdFwdParam
	}
	c := []*vh.IE{vh.FARID(pickU32(r))}
	if create || r.Chance(2, 3) {
		// flag words: single bits, combinations, 1- and 2-octet forms. Update FAR avoids BUFF->x
		// transitions' side effects by using a fresh FAR id each time (nothing is buffered here).
		w := uint16(r.Pick64(1, 2, 4, 0xc, 0x10, 0x80, 0x100, 0x1000, 0x1fff, 0xffff))
		c = append(c, vh.ApplyAction(w, w > 0xff || r.Bool()))
	}
	if r.Chance(2, 3) {
		var fp []*vh.IE
		if r.Bool() {
			fp = append(fp, vh.DstIntf(uint8(r.Intn(4))))
		}
		if r.Chance(3, 4) {
			lo := uint16(r.Intn(4)) // N19 / N6 indication bits
			if r.Bool() {
				fp = append(fp, vh.OHC(0x0100|lo, pickU32(r), randIP(r), 0))
			} else {
				fp = append(fp, vh.OHC(0x0400|lo, 0, randIP(r), uint16(r.Pick64(0, 1, 2152, 65535))))
			}
		}
		if r.Chance(1, 3) {
			pol := []string{"p", "policy-1", "0123456789abcdef", ""}[r.Intn(4)]
			if r.Chance(1, 3) {
				// lengths up to what the one-octet length field allows (the identifier is opaque to the UPF)
				pol = strings.Repeat("q", []int{63, 64, 127, 128, 253, 254, 255}[r.Intn(7)])
			}
			fp = append(fp, vh.FwdPolicy(pol))
		}
		if r.Chance(1, 3) {
			fp = append(fp, vh.SMReqFlags(uint8(r.Intn(8))))
		}
		if r.Chance(1, 4) {
			fp = append(fp, vh.NetInst("n6"))
		}
		c = append(c, vh.Grp(ft, fp...))
	}
	if r.Chance(1, 3) {
		c = append(c, vh.BARID(uint8(r.Pick64(0, 1, 127, 255))))
	}
	return vh.Grp(t, c...)
}

func rate40(r *vh.Rng) uint64 {
	return r.Pick64(0, 1, 0xff, 0x100, 0xffffffff, 1<<32, 1<<32+1, 0xff00000000, 0xffffffffff, 0x123456789a) & 0xffffffffff
}

func genQER(r *vh.Rng, create bool) *vh.IE {
	t := uint16(vh.TCreateQER)
	if !create {
		t = vh.TUpdateQER
	}
	c := []*vh.IE{vh.QERID(pickU32(r))}
	if create || r.Bool() {
		c = append(c, vh.Gate(uint8(r.Intn(16))))
	}
	if r.Chance(2, 3) {
		ul, dl := rate40(r), rate40(r)
		if ul == dl {
			dl ^= 0x100000001
		}
		c = append(c, vh.MBR(ul, dl))
	}
	if r.Chance(1, 2) {
		c = append(c, vh.GBR(rate40(r), rate40(r)))
	}
	if r.Chance(2, 3) {
		c = append(c, vh.QFI(uint8(r.Intn(64))))
	}
	if r.Chance(1, 3) {
		c = append(c, vh.RQI(uint8(r.Intn(2))))
	}
	if r.Chance(1, 3) {
		c = append(c, vh.PPI(uint8(r.Intn(8))))
	}
	if r.Chance(1, 3) {
		c = append(c, vh.QERCorr(pickU32(r)))
	}
	return vh.Grp(t, c...)
}

// genURR: perio selects whether the periodic trigger is set (nil: free choice
// among non-periodic words for updates that must not touch registration).
func genURR(r *vh.Rng, create bool, id uint32, trig *uint32, period uint32) *vh.IE {
	t := uint16(vh.TCreateURR)
	if !create {
		t = vh.TUpdateURR
	}
	c := []*vh.IE{vh.URRID(id)}
	if create || r.Bool() {
		c = append(c, vh.MeasMethod(uint8(r.Intn(8))))
	}
	if trig != nil {
		oct := 3
		if *trig < 0x10000 && r.Bool() {
			oct = 2
		}
		c = append(c, vh.RepTrig(*trig, oct))
	}
	if period > 0 {
		c = append(c, vh.MeasPeriod(period))
	}
	if r.Bool() {
		c = append(c, vh.MeasInfo(uint8(r.Pick64(0, 1, 0x10, 0x1f, 0xff))))
	}
	if r.Chance(2, 3) {
		c = append(c, vh.VolThresh(uint8(1+r.Intn(7)), r.Pick64(0, 1, 1<<32, ^uint64(0)), r.Pick64(0, ^uint64(0)), r.Pick64(1<<63, 12345)))
	}
	if r.Chance(1, 2) {
		c = append(c, vh.VolQuota(uint8(1+r.Intn(7)), r.Pick64(0, 1, 1<<32, ^uint64(0)), r.Pick64(0, ^uint64(0)), r.Pick64(1<<63, 12345)))
	}
	return vh.Grp(t, c...)
}

func genBAR(r *vh.Rng, create bool) *vh.IE {
	t := uint16(vh.TCreateBAR)
	if !create {
		t = vh.TUpdateBAR
	}
	c := []*vh.IE{vh.BARID(uint8(r.Pick64(0, 1, 127, 255)))}
	if r.Chance(3, 4) {
		c = append(c, vh.DDNDelay(uint8(r.Pick64(0, 1, 2, 20, 127, 128, 255))))
	}
	if r.Chance(3, 4) {
		c = append(c, vh.SuggBufCnt(uint8(r.Pick64(0, 1, 10, 255))))
	}
	return vh.Grp(t, c...)
}

type nopHandler struct{}

func (nopHandler) NotifySessReport(report.SessReport)      {}
func (nopHandler) PopBufPkt(uint64, uint16) ([]byte, bool) { return nil, false }

var addCmdOf = map[string]uint8{"PDR": vh.KCmdAddPDR, "FAR": vh.KCmdAddFAR, "QER": vh.KCmdAddQER, "URR": vh.KCmdAddURR, "BAR": vh.KCmdAddBAR}

type xlate struct {
	d    *vh.SimDriver
	res  *vh.Result
	prop string
	ci   int
	sync chan struct{}
	upd  map[[2]uint64]bool // URRs whose registration was last decided by an Update URR
	hist []string           // URR operations of the case (for witnesses)
}

// call sends one IE through the real driver and returns the ADD request the kernel saw.
func (x *xlate) call(kind string, create bool, seid uint64, g *vh.IE) (*vh.KReq, error, string) {
	pi, err := ie.Parse(g.Bytes())
	if err != nil {
		return nil, nil, "go-pfcp cannot parse the generated IE: " + err.Error()
	}
	x.d.K.TakeLog()
	var derr error
	switch kind + fmt.Sprint(create) {
	case "PDRtrue":
		derr = x.d.G.CreatePDR(seid, pi)
	case "PDRfalse":
		derr = x.d.G.UpdatePDR(seid, pi)
	case "FARtrue":
		derr = x.d.G.CreateFAR(seid, pi)
	case "FARfalse":
		derr = x.d.G.UpdateFAR(seid, pi)
	case "QERtrue":
		derr = x.d.G.CreateQER(seid, pi)
	case "QERfalse":
		derr = x.d.G.UpdateQER(seid, pi)
	case "URRtrue":
		derr = x.d.G.CreateURR(seid, pi)
	case "URRfalse":
		_, derr = x.d.G.UpdateURR(seid, pi)
	case "BARtrue":
		derr = x.d.G.CreateBAR(seid, pi)
	case "BARfalse":
		derr = x.d.G.UpdateBAR(seid, pi)
	}
	var req *vh.KReq
	for _, l := range x.d.K.TakeLog() {
		if l.Cmd == addCmdOf[kind] {
			if req != nil {
				return req, derr, "more than one ADD request for one IE"
			}
			req = l
		}
	}
	return req, derr, ""
}

func (x *xlate) compare(kind string, create bool, seid uint64, g *vh.IE, tag string) bool {
	want, err := vh.ExpectAdd(kind, seid, g, create)
	if err != nil {
		x.res.Inconc("reference translator: " + err.Error())
		return true
	}
	req, derr, problem := x.call(kind, create, seid, g)
	op := map[bool]string{true: "Create", false: "Update"}[create]
	detail := map[string]interface{}{"ie": g.String(), "ie_hex": fmt.Sprintf("%x", g.Bytes()), "seid": fmt.Sprintf("%#x", seid), "order": tag}
	if problem != "" {
		x.res.Violate(x.ci, x.prop+":"+kind+"-request", fmt.Sprintf("%s %s: %s", op, kind, problem), detail)
		return false
	}
	if req == nil {
		x.res.Violate(x.ci, x.prop+":"+kind+"-no-request", fmt.Sprintf("%s %s (%s): no ADD request reached the kernel (driver error: %v)", op, kind, tag, derr), detail)
		return false
	}
	wantFlag := uint16(0x200) // NLM_F_EXCL
	if !create {
		wantFlag = 0x100 // NLM_F_REPLACE
	}
	if req.Flags&0x300 != wantFlag {
		x.res.Violate(x.ci, x.prop+":"+kind+"-nl-flags", fmt.Sprintf("%s %s: netlink flags %#x", op, kind, req.Flags), detail)
	}
	got := vh.NormObserved(kind, req.Attrs)
	missing, spurious := vh.DiffNLAs(want, got)
	if len(missing)+len(spurious) > 0 {
		detail["missing"] = missing
		detail["spurious"] = spurious
		detail["observed"] = vh.CanonNLAs(got)
		x.res.Violate(x.ci, x.prop+":"+kind+"-"+attrClass(kind, missing, spurious),
			fmt.Sprintf("%s %s (%s order): kernel request differs from the IE: missing %v, spurious %v", op, kind, tag, missing, spurious), detail)
		return false
	}
	return true
}

// attrClass names the first differing top-level attribute type (stable signature).
func attrClass(kind string, missing, spurious []string) string {
	all := append(append([]string{}, missing...), spurious...)
	sort.Strings(all)
	t := all[0]
	if i := strings.IndexAny(t, "={"); i > 0 {
		t = t[:i]
	}
	return "attr" + t
}

func runXlate(res *vh.Result, prop string) {
	kindsOf := map[string][]string{"C02": {"PDR", "FAR"}, "C03": {"QER", "URR", "BAR"}}[prop]
	res.Rule = "generated Create/Update " + strings.Join(kindsOf, "/") + " IEs (boundary and random field values, optional IEs present/absent/repeated, all 64-bit SEID classes) sent through the " +
		"real gtp5g driver to a simulated kernel in canonical and in permuted child order; the captured ADD request is compared with the reference " +
		"translation as a multiset per nesting level; non-trivial = IE with at least 3 children; distinct = distinct IE byte strings"
	if prop == "C03" {
		res.Rule += "; plus PERIO registration: after each batch the set the real perio server queries on an injected tick is compared with the model set"
	}
	res.Assumptions = []string{
		"go-gtp5gnl attribute numbering and go-nl are the definition of the kernel interface; the simulated kernel only records requests",
		"not generated (outside the supported IE set): IPv6, CHOOSE F-TEID, SDF TTC/SPI/FL, outer header creation forms without a port",
		"URR measurement period attribute: presence compared, value not (DESIGN.md §4 C03); measurement information compared numerically",
	}
	ncases := vh.Tiered(300, 60000)
	per := 50
	res.Cases(ncases, func(ci int, rng *vh.Rng) {
		wg := &sync.WaitGroup{}
		d, err := vh.NewSimDriver(vh.SimDriverOpts{WG: wg})
		if err != nil {
			res.Inconc("sim driver: " + err.Error())
			return
		}
		x := &xlate{d: d, res: res, prop: prop, ci: ci, sync: make(chan struct{}, 16), upd: map[[2]uint64]bool{}}
		d.HandleReport(nopHandler{})
		type reg struct {
			period time.Duration
		}
		model := map[[2]uint64]reg{} // (seid, urr) -> registration
		defer func() {
			d.Close()
			done := make(chan struct{})
			go func() { wg.Wait(); close(done) }()
			select {
			case <-done:
			case <-time.After(10 * time.Second):
				res.Inconc("driver goroutines did not stop")
				if os.Getenv("VERIF_DEBUG") != "" {
					pprof.Lookup("goroutine").WriteTo(os.Stderr, 2)
				}
			}
		}()
		urrSeen := map[[2]uint64]bool{}
		for n := 0; n < per; n++ {
			kind := kindsOf[rng.Intn(len(kindsOf))]
			create := rng.Chance(3, 5)
			seid := rng.Pick64(seidBounds...)
			if seid == 0 || seid >= vh.SentSEID {
				seid = 3
			}
			var g *vh.IE
			switch kind {
			case "PDR":
				g = genPDR(rng, create)
			case "FAR":
				g = genFAR(rng, create)
			case "QER":
				g = genQER(rng, create)
			case "BAR":
				g = genBAR(rng, create)
			case "URR":
				id := uint32(rng.Pick64(1, 2, 3, 0x7fffffff, 0xffffffff))
				seid = []uint64{1, 2, 1 << 63, ^uint64(0) - 1}[rng.Intn(4)]
				key := [2]uint64{seid, uint64(id)}
				var trig *uint32
				period := uint32(0)
				if create {
					if urrSeen[key] {
						continue // one incarnation per (seid, id) and case: registration model stays unambiguous
					}
					w := uint32(rng.Pick64(1, 2, 3, 0x101, 0x100, 0x20000, 0x3ffff, 0xfffe, 0x30001)) & 0xffffff
					trig = &w
					if w&1 != 0 || rng.Chance(1, 4) {
						period = uint32([]uint64{3600, 7200, 86400, 0xffffffff, 100000}[rng.Intn(5)]) // hours: no real tick can fire during a case
					}
					urrSeen[key] = true
					if w&1 != 0 {
						model[key] = reg{time.Duration(period) * time.Second}
					}
				} else {
					if !urrSeen[key] {
						continue
					}
					switch rng.Intn(3) {
					case 0: // no triggers IE: registration unaffected
					case 1: // triggers without PERIO: must end up unregistered
						w := uint32(rng.Pick64(2, 0x100, 0x20000, 0xfffe)) &^ 1 & 0x3ffff
						trig = &w
						delete(model, key)
						x.upd[key] = true
					case 2: // triggers with PERIO and a period: must end up registered with it
						w := (uint32(rng.Pick64(1, 3, 0x101)) | 1) & 0x3ffff
						trig = &w
						period = uint32([]uint64{5400, 10800, 172800}[rng.Intn(3)])
						model[key] = reg{time.Duration(period) * time.Second}
						x.upd[key] = true
					}
				}
				g = genURR(rng, create, id, trig, period)
				x.hist = append(x.hist, fmt.Sprintf("create=%v seid=%#x %s", create, seid, g))
			}
			ok1 := x.compare(kind, create, seid, g, "canonical")
			// metamorphic: permuted child order must give the same request (use another SEID so that create does not collide)
			seid2 := seid ^ 0x40
			if kind == "URR" {
				seid2 = seid // URR registration model is keyed by the SEID: repeat as an update instead
			}
			pg := permuted(rng, g)
			var ok2 bool
			if kind == "URR" {
				ok2 = true
				if !create {
					ok2 = x.compare(kind, false, seid2, pg, "permuted")
				}
			} else {
				ok2 = x.compare(kind, create, seid2, pg, "permuted")
			}
			_ = ok1 && ok2
			sig := ""
			if len(g.C) >= 3 {
				sig = vh.Sig(g.Bytes())
			}
			res.Eval(sig)
			res.Count("netlink_add_requests", 2)
			if ci == 0 && n < 2 {
				res.Sample(map[string]interface{}{"kind": kind, "create": create, "seid": fmt.Sprintf("%#x", seid), "ie": g.String()})
			}
		}
		if prop != "C03" {
			return
		}
		// some of the URRs are removed again - a third of these removals is refused by the kernel (DEL_URR fails):
		// the control plane has given the URR up either way, so it must leave the periodic set
		var keys [][2]uint64
		for k := range urrSeen {
			keys = append(keys, k)
		}
		sort.Slice(keys, func(i, j int) bool {
			if keys[i][0] != keys[j][0] {
				return keys[i][0] < keys[j][0]
			}
			return keys[i][1] < keys[j][1]
		})
		for _, k := range keys {
			if !rng.Chance(1, 3) {
				continue
			}
			refuse := rng.Chance(1, 3)
			if refuse {
				d.K.SetFailCmd(vh.KCmdDelURR, syscall.ENOMEM)
			}
			pi, _ := ie.Parse(vh.Grp(vh.TRemoveURR, vh.URRID(uint32(k[1]))).Bytes())
			_, rerr := d.G.RemoveURR(k[0], pi)
			if refuse {
				d.K.SetFailCmd(vh.KCmdDelURR, 0)
				if rerr != nil {
					res.Count("urr_removals_refused_by_the_kernel", 1)
				}
			}
			res.Count("urr_removals", 1)
			delete(model, k)
			x.hist = append(x.hist, fmt.Sprintf("remove seid=%#x urr=%d refused=%v", k[0], k[1], refuse))
		}
		// ---- PERIO registration against the model ----
		if !d.PerioBarrier() {
			res.Inconc("perio barrier timed out")
			return
		}
		want := map[time.Duration]map[[2]uint64]bool{}
		for k, r := range model {
			if want[r.period] == nil {
				want[r.period] = map[[2]uint64]bool{}
			}
			want[r.period][k] = true
		}
		got := map[time.Duration]map[[2]uint64]bool{}
		for _, g := range d.G.VerifPerio().VerifGroups() {
			if g.Period == vh.SentPeriod {
				continue
			}
			got[g.Period] = map[[2]uint64]bool{}
			for seid, ids := range g.URRs {
				for _, id := range ids {
					got[g.Period][[2]uint64{seid, uint64(id)}] = true
				}
			}
		}
		res.Count("perio_registrations_checked", int64(len(model)))
		for p, ks := range want {
			for k := range ks {
				if !got[p][k] {
					where := "not registered at all"
					for p2, g2 := range got {
						if g2[k] {
							where = fmt.Sprintf("registered with period %v", p2)
						}
					}
					res.Violate(ci, perioSig("C03:perio-not-registered", k, x), fmt.Sprintf("URR %d of session %#x has the periodic trigger with period %v but is %s", k[1], k[0], p, where),
						map[string]interface{}{"model": fmt.Sprint(want), "registered": fmt.Sprint(got), "urr_ops": x.hist})
				}
			}
		}
		for p, ks := range got {
			for k := range ks {
				if !want[p][k] {
					res.Violate(ci, perioSig("C03:perio-spurious-registration", k, x), fmt.Sprintf("URR %d of session %#x is registered for periodic querying (period %v) but its current triggers/period do not say so", k[1], k[0], p),
						map[string]interface{}{"model": fmt.Sprint(want), "registered": fmt.Sprint(got), "urr_ops": x.hist})
				}
			}
		}
	}, nil)
}

// perioSig distinguishes registration errors that stem from Update URR (the
// driver ignores trigger changes on update, DESIGN.md §5 F11) from those of Create URR.
func perioSig(base string, k [2]uint64, x *xlate) string {
	if x.upd[k] {
		return base + "-after-update"
	}
	return base
}
