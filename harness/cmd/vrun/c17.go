package main

import (
	"encoding/binary"
	"fmt"
	"os"
	"runtime"
	"sort"
	"strings"
	"sync"
	"sync/atomic"
	"time"

	"github.com/free5gc/go-upf/internal/forwarder"
	"github.com/free5gc/go-upf/internal/pfcp"
	"github.com/free5gc/go-upf/internal/report"
	"github.com/free5gc/go-upf/internal/verif/vh"
	upfapp "github.com/free5gc/go-upf/pkg/app"
)

func init() { checks["c17"] = runC17 }

type c17Cfg struct {
	SMFs      int    `json:"smfs"`
	Producers int    `json:"producers"`
	RetransMs int    `json:"retrans_ms"`
	MaxRetr   uint8  `json:"max_retrans"`
	Procs     int    `json:"gomaxprocs"`
	Mode      string `json:"mode"` // drain-then-stop | stop-in-flight | stop-at-once | stop-in-bulk-removal
	StopMs    int    `json:"stop_after_ms"`
	KLatUs    int    `json:"kernel_latency_us"`
}

// gInfo describes one goroutine that still executes go-upf code.
type gInfo struct {
	State string `json:"state"`
	Inner string `json:"inner"` // innermost non-runtime frame
	Role  string `json:"role"`  // outermost go-upf frame (what the goroutine is)
	Own   string `json:"own"`   // innermost go-upf frame
}

func shortFn(f string) string {
	f = strings.TrimPrefix(f, "github.com/free5gc/go-upf/")
	f = strings.TrimPrefix(f, "github.com/")
	return f
}

// upfGoroutines lists goroutines that still execute go-upf code (harness goroutines excluded).
func upfGoroutines() []gInfo {
	buf := make([]byte, 8<<20)
	n := runtime.Stack(buf, true)
	var out []gInfo
	for _, g := range strings.Split(string(buf[:n]), "\n\n") {
		lines := strings.SplitN(g, "\n", 2)
		if len(lines) < 2 {
			continue
		}
		var fns []string
		creator := ""
		for _, l := range strings.Split(lines[1], "\n") {
			if l == "" || l[0] == '\t' {
				continue
			}
			if strings.HasPrefix(l, "created by ") {
				l = strings.TrimPrefix(l, "created by ")
				if k := strings.Index(l, " in goroutine"); k > 0 {
					l = l[:k]
				}
				creator = l
				continue
			}
			if k := strings.LastIndex(l, "("); k > 0 {
				fns = append(fns, l[:k])
			}
		}
		var own []string
		isHarness := func(f string) bool {
			return strings.Contains(f, "go-upf/internal/verif/") || strings.HasPrefix(f, "main.")
		}
		for _, f := range fns {
			if !isHarness(f) && strings.Contains(f, "github.com/free5gc/go-upf/") {
				own = append(own, f)
			}
		}
		if len(own) == 0 || len(fns) == 0 {
			continue
		}
		// a goroutine started by the harness that merely calls into go-upf (producers, SMF scripts) is not a
		// go-upf goroutine - except the application's run path, which the harness starts in place of main()
		role := own[len(own)-1]
		if (isHarness(fns[len(fns)-1]) || isHarness(creator)) && !strings.Contains(role, "pkg/app.") {
			continue
		}
		gi := gInfo{Role: shortFn(role), Own: shortFn(own[0])}
		for _, f := range fns {
			if strings.HasPrefix(f, "runtime.") || strings.HasPrefix(f, "sync.") || strings.HasPrefix(f, "internal/") || strings.HasPrefix(f, "syscall.") ||
				strings.HasPrefix(f, "time.") {
				continue
			}
			gi.Inner = shortFn(f)
			break
		}
		if i := strings.Index(lines[0], "["); i >= 0 {
			st := strings.TrimSuffix(lines[0][i+1:], "]:")
			if k := strings.Index(st, ","); k > 0 {
				st = st[:k]
			}
			gi.State = st
		}
		out = append(out, gi)
	}
	sort.Slice(out, func(i, j int) bool { return out[i].Role+out[i].Inner < out[j].Role+out[j].Inner })
	return out
}

func roleName(r string) string {
	switch {
	case strings.Contains(r, "pfcp.(*PfcpServer).main") || strings.Contains(r, "pfcp.(*PfcpServer).Start"):
		return "event-loop"
	case strings.Contains(r, "pfcp.(*PfcpServer).receiver"):
		return "receiver"
	case strings.Contains(r, "perio.(*Server).Serve") || strings.Contains(r, "perio.OpenServer"):
		return "perio-server"
	case strings.Contains(r, "newTicker"):
		return "ticker"
	case strings.Contains(r, "VerifNewGtp5g") || strings.Contains(r, "OpenGtp5g"):
		return "netlink-mux"
	case strings.Contains(r, "listenShutdownEvent"):
		return "shutdown-listener"
	case strings.Contains(r, "pkg/app."):
		return "app-run"
	case strings.Contains(r, "startTimer") || strings.Contains(r, "NotifyTransTimeout"):
		return "transaction-timer"
	}
	return r
}

// rootCauses classifies the blocked goroutines: what each is waiting for.
// Goroutines that merely wait for the others (wait group, idle servers) are
// consequences and are left out when a cause is present.
func rootCauses(gs []gInfo) []string {
	seen := map[string]bool{}
	var causes, rest []string
	for _, g := range gs {
		role := roleName(g.Role)
		c := ""
		switch {
		case strings.Contains(g.Inner, "go-nl.(*Client).Do"):
			c = "netlink-request-in-flight@" + role
		case strings.Contains(g.Inner, "NotifySessReport"):
			c = "blocked-in-NotifySessReport@" + role
		case strings.Contains(g.Inner, "NotifyTransTimeout"):
			c = "blocked-in-NotifyTransTimeout@" + role
		case strings.Contains(g.Inner, "stopTicker"):
			c = "blocked-in-stopTicker@" + role
		case strings.Contains(g.Inner, "PeriodReportTimer") || strings.Contains(g.Inner, "perio.(*Server).Close"):
			c = "blocked-posting-perio-event@" + role
		case strings.Contains(g.Inner, "newTicker") && g.State == "chan send":
			c = "ticker-blocked-posting-tick@" + role
		case strings.Contains(g.Inner, "receiver") && g.State == "chan send":
			c = "receiver-blocked-on-rcvCh@" + role
		}
		if c != "" {
			if !seen[c] {
				seen[c] = true
				causes = append(causes, c)
			}
			continue
		}
		k := g.State + "@" + role + "/" + g.Inner
		if !seen[k] {
			seen[k] = true
			rest = append(rest, k)
		}
	}
	sort.Strings(causes)
	sort.Strings(rest)
	if len(causes) > 0 {
		return causes
	}
	return []string{"unclassified:" + strings.Join(rest, "|")}
}

func c17Run(res *vh.Result, ci int, rng *vh.Rng) {
	c := c17Cfg{SMFs: rng.Range(2, 4), Producers: rng.Range(2, 8), RetransMs: rng.Range(2, 20), MaxRetr: uint8(rng.Range(1, 3)),
		Procs: []int{2, 4, 16}[rng.Intn(3)], KLatUs: []int{0, 0, 200, 2000}[rng.Intn(4)]}
	c.Mode = []string{"drain-then-stop", "stop-in-flight", "stop-in-flight", "stop-at-once", "stop-in-bulk-removal"}[rng.Intn(5)]
	c.StopMs = rng.Range(30, 400)
	runtime.GOMAXPROCS(c.Procs)
	defer runtime.GOMAXPROCS(runtime.NumCPU())
	res.Journal(ci, vh.J(c))

	cfg := vh.NewCfg(vh.IP(0, 1), vh.EnvOpts{MaxRetrans: c.MaxRetr, RetransTimeout: time.Duration(c.RetransMs) * time.Millisecond})
	app, _ := upfapp.NewApp(cfg)
	k := vh.NewKernel()
	k.KeepLog = false
	if c.KLatUs > 0 {
		lat := time.Duration(c.KLatUs) * time.Microsecond
		var n int64
		k.Latency = func(r *vh.KReq) time.Duration {
			if atomic.AddInt64(&n, 1)%7 == 0 {
				return lat
			}
			return 0
		}
	}
	d, err := vh.NewSimDriver(vh.SimDriverOpts{WG: app.VerifWG(), Kernel: k})
	if err != nil {
		res.Inconc("driver: " + err.Error())
		return
	}
	if err := d.AttachMulticast(); err != nil {
		res.Inconc("mcast: " + err.Error())
		return
	}
	tap := &vh.Tap{Inner: &closeOrder{Gtp5g: d.G, d: d}, Quiet: true}
	ready := make(chan *pfcp.PfcpServer, 1)
	stop := make(chan struct{})
	runDone := make(chan struct{})
	vh.TakeFatals()
	go func() {
		app.VerifRun(tap, ready, stop)
		close(runDone)
	}()
	srv := <-ready
	env, err := vh.AttachEnv(srv, cfg)
	if err != nil {
		res.Inconc("attach: " + err.Error())
		close(stop)
		return
	}
	abnormal := false
	viol := func(sig, desc string, extra interface{}) {
		abnormal = true
		res.Violate(ci, "C17:"+sig, desc, map[string]interface{}{"config": c, "detail": extra})
	}

	// ---- shared harness state (harness-only; guarded by its own mutex) ----
	var mu sync.Mutex
	liveSEIDs := []uint64{}
	stable := map[int]uint64{} // SMF index -> UP SEID of its untouched session
	var quit int32             // 1: SMF scripts and direct producers stop
	var mcastQuit int32
	var wg, wgDirect sync.WaitGroup
	type seenRep struct {
		seq  uint32
		smf  int
		seid uint64
		t    int64
	}
	seen := map[uint64][]seenRep{} // report serial -> where it was seen (distinct sequence numbers)
	var order []byte
	var smfs []*vh.SMF
	for n := 0; n < c.SMFs; n++ {
		s, err := vh.NewSMF(n+2, env.UPF, 0)
		if err != nil {
			res.Inconc("smf: " + err.Error())
			close(stop)
			return
		}
		n := n
		s.SetOnReport(func(dg *vh.Datagram) vh.ReportAction {
			if dg.M != nil {
				mu.Lock()
				// arrival order of report requests across the SMFs, with what each carries: the observable
				// trace of how producers, timers and the event loop interleaved
				if len(order) < 400 {
					kind := byte('d')
					if len(dg.M.FindAll(vh.TUsaRepReq)) > 0 {
						kind = 'u'
					}
					order = append(order, byte('0'+n), kind)
				}
				for _, e := range dg.M.FindAll(vh.TUsaRepReq) {
					u := vh.ParseURep(e)
					if u.HasVol && u.Vol[0] > 0 {
						serial := (u.Vol[0] - 1) / 1000
						dup := false
						for _, x := range seen[serial] {
							if x.seq == dg.M.Seq && x.smf == n {
								dup = true
							}
						}
						if !dup {
							seen[serial] = append(seen[serial], seenRep{dg.M.Seq, n, dg.M.SEID, dg.T})
						}
					}
				}
				mu.Unlock()
			}
			return vh.ReportAction{SEID: 1}
		})
		s.StartReaders()
		smfs = append(smfs, s)
	}
	defer func() {
		for _, s := range smfs {
			s.Close()
		}
	}()
	rules := func(perio bool) []*vh.IE {
		r := []*vh.IE{
			vh.Rule{Kind: "FAR", ID: 1, Action: 0xc, Peer: 1, TEID: 77}.CreateIE(),
			vh.Rule{Kind: "QER", ID: 1, QFI: 5}.CreateIE(),
			vh.Rule{Kind: "URR", ID: 1, Method: 2, Trig: 2}.CreateIE(),
			vh.Rule{Kind: "PDR", ID: 1, FAR: 1, QERs: []uint32{1}, URRs: []uint32{1}}.CreateIE(),
		}
		if perio {
			r = append(r, vh.Rule{Kind: "URR", ID: 2, Method: 2, Trig: 3, Period: 1}.CreateIE())
		}
		return r
	}
	doReq := func(s *vh.SMF, msg []byte, seq uint32, dup bool) *vh.Datagram {
		s.SendFrom(0, msg)
		if dup {
			s.SendFrom(0, msg)
		}
		for try := 0; try < 3; try++ {
			if d := s.WaitRsp(seq, 150*time.Millisecond); d != nil {
				return d
			}
			if atomic.LoadInt32(&quit) != 0 {
				return nil
			}
			s.SendFrom(0, msg) // what a real SMF does: retransmit with the same sequence number
		}
		return nil
	}
	// stable sessions first (sequentially), so that exactly-once accounting has fixed targets
	for n, s := range smfs {
		seq := s.NextSeq()
		if doReq(s, vh.BuildMsg(vh.MAssocReq, nil, seq, vh.NodeIDv4(s.IP), vh.RecoveryTS(1)), seq, false) == nil {
			res.Inconc("association unanswered")
			close(stop)
			return
		}
		seq = s.NextSeq()
		zero := uint64(0)
		// in half of the cases the stable sessions carry a periodic URR too, so that one tick makes the periodic
		// server hand several sessions' reports to the loop back to back
		ies := append([]*vh.IE{vh.NodeIDv4(s.IP), vh.FSEIDv4(0x900, s.IP)}, rules(c.RetransMs%2 == 0)...)
		dg := doReq(s, vh.BuildMsg(vh.MEstReq, &zero, seq, ies...), seq, false)
		if dg == nil || dg.M == nil || dg.M.Find(vh.TFSEID) == nil {
			res.Inconc("stable establishment unanswered")
			close(stop)
			return
		}
		stable[n] = binary.BigEndian.Uint64(dg.M.Find(vh.TFSEID).V[1:9])
	}
	if c.Mode == "stop-at-once" {
		c.StopMs = 0
	}
	// ---- SMF scripts ----
	for n, s := range smfs {
		wg.Add(1)
		go func(n int, s *vh.SMF) {
			defer wg.Done()
			r := vh.NewRng(vh.O.Seed, 0xc17, uint64(ci), uint64(n))
			var mine []uint64
			cp := uint64(0x100)
			bulk := 3
			if c.Mode == "stop-in-bulk-removal" {
				bulk = 40
			}
			for atomic.LoadInt32(&quit) == 0 {
				seq := s.NextSeq()
				dup := r.Chance(1, 6)
				switch x := r.Intn(10); {
				case x < 4 && len(mine) < bulk:
					zero := uint64(0)
					cp++
					ies := append([]*vh.IE{vh.NodeIDv4(s.IP), vh.FSEIDv4(cp, s.IP)}, rules(r.Bool())...)
					if dg := doReq(s, vh.BuildMsg(vh.MEstReq, &zero, seq, ies...), seq, dup); dg != nil && dg.M != nil && dg.M.Find(vh.TFSEID) != nil {
						up := binary.BigEndian.Uint64(dg.M.Find(vh.TFSEID).V[1:9])
						mine = append(mine, up)
						mu.Lock()
						liveSEIDs = append(liveSEIDs, up)
						mu.Unlock()
					}
				case x < 7 && len(mine) > 0:
					up := mine[r.Intn(len(mine))]
					doReq(s, vh.BuildMsg(vh.MModReq, &up, seq,
						vh.Rule{Kind: "FAR", ID: 1, Action: []uint16{2, 0xc, 4, 1}[r.Intn(4)]}.UpdateIE(),
						vh.Grp(vh.TQueryURR, vh.URRID(1))), seq, dup)
				case x < 8 && len(mine) > 0:
					i := r.Intn(len(mine))
					up := mine[i]
					mine = append(mine[:i], mine[i+1:]...)
					mu.Lock()
					for j, v := range liveSEIDs {
						if v == up {
							liveSEIDs = append(liveSEIDs[:j], liveSEIDs[j+1:]...)
							break
						}
					}
					mu.Unlock()
					doReq(s, vh.BuildMsg(vh.MDelReq, &up, seq), seq, dup)
				default:
					doReq(s, vh.BuildMsg(vh.MHeartbeatReq, nil, seq, vh.RecoveryTS(2)), seq, dup)
				}
			}
		}(n, s)
	}
	// ---- producers ----
	serial := uint64(ci+1) * 10000000 // disjoint per case: a straggler of an earlier case can never alias
	var accounted sync.Map            // serial -> SMF index (stable sessions only)
	var injected int64
	for p := 0; p < c.Producers; p++ {
		wg.Add(1)
		if p > 0 {
			wgDirect.Add(1)
		}
		go func(p int) {
			defer wg.Done()
			if p > 0 {
				defer wgDirect.Done()
			}
			r := vh.NewRng(vh.O.Seed, 0xc17f, uint64(ci), uint64(p))
			for {
				if p == 0 {
					if atomic.LoadInt32(&mcastQuit) != 0 {
						return
					}
				} else if atomic.LoadInt32(&quit) != 0 {
					return
				}
				mu.Lock()
				var target uint64
				if len(liveSEIDs) > 0 && r.Bool() {
					target = liveSEIDs[r.Intn(len(liveSEIDs))]
				}
				mu.Unlock()
				sn := atomic.AddUint64(&serial, 1)
				smfIdx := r.Intn(c.SMFs)
				if target == 0 {
					target = stable[smfIdx]
					accounted.Store(sn, smfIdx)
				}
				atomic.AddInt64(&injected, 1)
				switch {
				case p == 0:
					// the kernel's multicast channel, dispatched by the real mux goroutine
					if r.Bool() {
						d.MulticastAsync(vh.BufferMsg(target, 1, 0xc, []byte{0x45, byte(sn), byte(sn >> 8), 1, 2, 3}))
						accounted.Delete(sn)
					} else {
						body := mcastReport(target, 1, sn)
						d.MulticastAsync(body)
					}
				case p == 1:
					// ticks, as a ticker goroutine posts them
					d.G.VerifPerio().VerifTryInjectTick(time.Second)
					accounted.Delete(sn)
				default:
					u := vh.UniqueUSAR(1, sn)
					u.USARTrigger.Flags = report.USAR_TRIG_VOLTH
					srv.NotifySessReport(report.SessReport{SEID: target, Reports: []report.Report{u}})
				}
				if r.Chance(2, 3) {
					time.Sleep(time.Duration(r.Intn(800)) * time.Microsecond)
				}
			}
		}(p)
	}
	// waitOrWedge waits for harness goroutines that call into the UPF; if they do not come back the stack is wedged
	waitOrWedge := func(w *sync.WaitGroup, what string) bool {
		done := make(chan struct{})
		go func() { w.Wait(); close(done) }()
		select {
		case <-done:
			return true
		case <-time.After(20 * time.Second):
			gs := upfGoroutines()
			cyc := findCycle(gs)
			if cyc == "" {
				cyc = strings.Join(rootCauses(gs), "|")
			}
			viol("wedged-under-load:"+cyc, fmt.Sprintf("%s did not return within 20 s: the UPF no longer takes reports (%s)", what, cyc), gs)
			res.Eval("")
			res.NextCase = ci + 1
			res.Write(false)
			os.Exit(3)
			return false
		}
	}
	// ---- the stop point ----
	time.Sleep(time.Duration(c.StopMs) * time.Millisecond)
	atomic.StoreInt32(&quit, 1) // scripts and direct producers (harness callers of the handler API) end first
	if c.Mode == "drain-then-stop" {
		atomic.StoreInt32(&mcastQuit, 1)
		waitOrWedge(&wg, "producers and SMF scripts")
		// exactly-once: every accounted report must reach its SMF in exactly one distinct request
		deadline := time.Now().Add(5 * time.Second)
		missing := 0
		for {
			missing = 0
			mu.Lock()
			accounted.Range(func(k, v interface{}) bool {
				if len(seen[k.(uint64)]) == 0 {
					missing++
				}
				return true
			})
			mu.Unlock()
			if missing == 0 || time.Now().After(deadline) || vh.FatalCount() > 0 {
				break
			}
			time.Sleep(5 * time.Millisecond)
		}
		dups, misrouted, total := 0, 0, 0
		var dupEx []string
		mu.Lock()
		accounted.Range(func(k, v interface{}) bool {
			total++
			l := seen[k.(uint64)]
			if len(l) > 1 {
				dups++
				if len(dupEx) < 5 {
					dupEx = append(dupEx, fmt.Sprintf("serial %d owner smf %d: %+v", k.(uint64), v.(int), l))
				}
			}
			for _, x := range l {
				if x.smf != v.(int) {
					misrouted++
				}
			}
			return true
		})
		mu.Unlock()
		res.Count("accounted_reports", int64(total))
		drops := 0
		for _, s := range smfs {
			drops += s.Drops()
		}
		if missing > 0 && vh.FatalCount() == 0 {
			if drops > 0 {
				res.Inconc("datagram loss at an SMF socket")
			} else {
				viol("report-lost", fmt.Sprintf("%d of %d usage reports for untouched sessions never reached their SMF", missing, total), nil)
			}
		}
		if dups > 0 {
			viol("report-duplicated", fmt.Sprintf("%d usage reports were forwarded in more than one distinct Session Report Request", dups), dupEx)
		}
		if misrouted > 0 {
			viol("report-misrouted", fmt.Sprintf("%d usage reports reached another SMF than the session's owner", misrouted), nil)
		}
	} else {
		// direct producers must have returned before Stop (they stand for nothing that survives it);
		// the multicast channel and the tickers keep going, like the kernel and time do
		waitOrWedge(&wgDirect, "the report producers")
		time.Sleep(time.Duration(rng.Intn(300)) * time.Microsecond)
	}
	close(stop)
	hang := false
	select {
	case <-runDone:
	case <-time.After(12 * time.Second):
		hang = true
	}
	atomic.StoreInt32(&mcastQuit, 1)
	if hang {
		gs := upfGoroutines()
		for _, cause := range rootCauses(gs) {
			viol("stop-hangs:"+cause, fmt.Sprintf("the UPF did not terminate within 12 s of the stop request (mode %s); %s; go-upf goroutines still running: %s", c.Mode, cause, vh.J(gs)), gs)
		}
		// the process state is unusable: ask the orchestrator for a fresh worker
		res.Eval(vh.Sig(vh.J(c)))
		res.NextCase = ci + 1
		res.Write(false)
		os.Exit(3)
	}
	wg.Wait()
	d.K.CloseAll()
	// goroutine census: nothing of go-upf may remain
	var left []gInfo
	for t := 0; t < 300; t++ {
		left = upfGoroutines()
		if len(left) == 0 {
			break
		}
		time.Sleep(10 * time.Millisecond)
	}
	if len(left) > 0 {
		for _, cause := range rootCauses(left) {
			viol("goroutines-left:"+cause, "go-upf goroutines still alive 3 s after Stop returned: "+vh.J(left), left)
		}
	}
	for _, f := range vh.TakeFatals() {
		viol(vh.FaultSig(f), "fatal error under concurrent load / stop (mode "+c.Mode+")", f)
	}
	// kernel-issued reports (the answers to periodic queries; serials below the harness range): whatever of them
	// arrived, arrived in one distinct Session Report Request, and those of a stable session at its own SMF.
	// (The hand-over of periodic reports goes through a mutex-guarded queue, which orders accesses for the race
	// detector that the program itself does not order: sharing between two notifications shows here instead.)
	mu.Lock()
	kseen, kdups, kmis := 0, 0, 0
	var kEx []string
	for sn, l := range seen {
		if sn >= 10000000 {
			continue
		}
		rep := k.Lookup(sn)
		if rep == nil {
			continue
		}
		kseen++
		bad := len(l) > 1
		if bad {
			kdups++
		}
		for j, up := range stable {
			if rep.Key.SEID != up {
				continue
			}
			for _, x := range l {
				if x.smf != j {
					kmis++
					bad = true
				}
			}
		}
		if bad && len(kEx) < 5 {
			kEx = append(kEx, fmt.Sprintf("kernel report %d (%s of URR %d, SEID %#x): %+v", sn, rep.Origin, rep.Key.ID, rep.Key.SEID, l))
		}
	}
	mu.Unlock()
	res.Count("periodic_reports_seen", int64(kseen))
	if kdups > 0 {
		viol("periodic-report-duplicated", fmt.Sprintf("%d kernel-issued usage reports were forwarded in more than one distinct Session Report Request", kdups), kEx)
	}
	if kmis > 0 {
		viol("periodic-report-misrouted", fmt.Sprintf("%d kernel-issued usage reports of untouched sessions reached another SMF than the owner", kmis), kEx)
	}
	res.Count("events_injected", atomic.LoadInt64(&injected))
	res.Count("driver_calls", tap.NCalls)
	res.Count("netlink_requests", atomic.LoadInt64(&k.NReq))
	mu.Lock()
	res.Count("report_requests_seen", int64(len(order)/2))
	isig := vh.Sig(string(order))
	mu.Unlock()
	res.Eval("interleaving:" + isig) // distinct observed arrival orders are what counts as distinct executions
	if ci < 3 {
		res.Sample(c)
	}
	if abnormal {
		// after a fault the process may hold stragglers of this case: continue in a fresh worker
		for _, s := range smfs {
			s.Close()
		}
		res.NextCase = ci + 1
		res.Write(false)
		os.Exit(3)
	}
}

// mcastReport builds a REPORT multicast with one uniquely valued report.
func mcastReport(seid uint64, urr uint32, serial uint64) []byte {
	st, en := vh.ReportTimes(serial)
	top := vh.AN(vh.KRepTop, vh.AN(vh.KUR,
		vh.A32(vh.KUrURRID, urr), vh.A32(vh.KUrTrig, 2), vh.A32(vh.KUrSeqn, 0),
		vh.AN(vh.KUrVol, vh.A64(2, serial*1000+1), vh.A64(3, serial*1000+2), vh.A64(4, serial*1000+3)),
		vh.A64(vh.KUrStart, uint64(st)*1e9), vh.A64(vh.KUrEnd, uint64(en)*1e9), vh.A64(vh.KUrSEID, seid)))
	return append([]byte{0, 0, 0, 0}, top.Encode()...)
}

func runC17(res *vh.Result) {
	res.Rule = "one process run per case under the Go race detector: full stack started through the application's run path, 2-4 asynchronous SMFs issuing seeded valid " +
		"histories with duplicates and retransmissions, 2-8 producers (kernel multicast dispatched by the real mux goroutine, injected and real 1 s periodic ticks, direct " +
		"report notifications), transaction timers of 2-20 ms, simulated-kernel latency, GOMAXPROCS 2/4/16 and a stop request in one of four placements; monitors: race " +
		"reports, Fatal/panic, termination and goroutine census after Stop, exactly-once accounting of uniquely valued reports (injected ones and the kernel-issued answers to periodic queries); every case is non-trivial; " +
		"distinct = distinct observed interleaving signatures (arrival order and kind of the first 200 Session Report Requests across the SMFs)"
	res.Assumptions = []string{
		"race reports are attributed by the innermost non-runtime frame of each access; third-party-only races are listed, harness races make the run inconclusive",
		"direct callers of the report-handler API (harness goroutines) stop before the stop request; the multicast channel and the tickers do not",
		"schedules not produced by these runs are not decided",
	}
	n := vh.Tiered(80, 10000)
	res.Cases(n, func(i int, rng *vh.Rng) { c17Run(res, i, rng) }, func(i int, p interface{}, stack string) {
		msg := fmt.Sprintf("panic: %v\n%s", p, stack)
		res.Violate(i, "C17:"+vh.FaultSig(msg), "panic in a harness-called go-upf path", msg)
	})
}

// closeOrder closes the harness-owned generic-netlink connections together with
// the driver (the driver's own conn fields are nil, so Gtp5g.Close cannot do it).
// They are closed after Gtp5g.Close: a request issued once the multiplexer is
// gone then shows up as a hanging goroutine instead of an I/O error.
type closeOrder struct {
	*forwarder.Gtp5g
	d *vh.SimDriver
}

func (c *closeOrder) Close() {
	c.Gtp5g.Close()
	c.d.CloseConns()
}
