package main

import (
	"encoding/binary"
	"fmt"
	"sync"
	"sync/atomic"
	"time"

	"github.com/anishathalye/porcupine"

	"github.com/free5gc/go-upf/internal/report"
	"github.com/free5gc/go-upf/internal/verif/vh"
)

// Concurrent part of C11: several clients draw UR-SEQN values for the same
// URRs at the same time through all three carriers; the recorded history
// (call stamp, return stamp, value) must be linearizable as a per-URR
// fetch-and-increment register. Checked with porcupine, partitioned by URR.

type c11Key struct {
	Sess int
	URR  uint32
}

type c11Op struct {
	key       c11Key
	call, ret int64
	out       uint32
	via       string
}

var c11Model = porcupine.Model{
	Partition: func(h []porcupine.Operation) [][]porcupine.Operation {
		m := map[c11Key][]porcupine.Operation{}
		for _, o := range h {
			k := o.Input.(c11Key)
			m[k] = append(m[k], o)
		}
		var out [][]porcupine.Operation
		for _, v := range m {
			out = append(out, v)
		}
		return out
	},
	Init: func() interface{} { return uint32(0) },
	Step: func(state, input, output interface{}) (bool, interface{}) {
		s := state.(uint32)
		if output.(uint32) != s {
			return false, s
		}
		return true, s + 1
	},
	DescribeOperation: func(input, output interface{}) string {
		return fmt.Sprintf("seqn(%v) -> %d", input, output)
	},
}

func c11Concurrent(res *vh.Result, ci int, rng *vh.Rng) {
	fs, err := vh.StartFull(vh.FullOpts{SMFs: 2, Quiet: true})
	if err != nil {
		res.Inconc("start: " + err.Error())
		return
	}
	if err := fs.D.AttachMulticast(); err != nil {
		res.Inconc("mcast: " + err.Error())
		return
	}
	defer fs.Stop()
	var mu sync.Mutex
	type arrival struct {
		seqn uint32
		t    int64
		smf  int
	}
	arrived := map[uint64]arrival{} // report serial -> what the SMF saw
	for n, s := range fs.SMFs {
		n := n
		s.SetOnReport(func(d *vh.Datagram) vh.ReportAction {
			if d.M != nil {
				mu.Lock()
				for _, e := range d.M.FindAll(vh.TUsaRepReq) {
					u := vh.ParseURep(e)
					if u.HasVol && u.HasSEQN {
						sn := (u.Vol[0] - 1) / 1000
						if _, dup := arrived[sn]; !dup { // a retransmission repeats the value: first copy counts
							arrived[sn] = arrival{u.SEQN, d.T, n}
						}
					}
				}
				mu.Unlock()
			}
			return vh.ReportAction{SEID: 1}
		})
		s.StartReaders()
	}
	ups := make([]uint64, 2)
	for n, s := range fs.SMFs {
		seq := s.NextSeq()
		s.SendFrom(0, vh.BuildMsg(vh.MAssocReq, nil, seq, vh.NodeIDv4(s.IP), vh.RecoveryTS(1)))
		if s.WaitRsp(seq, 5*time.Second) == nil {
			res.Inconc("association unanswered")
			return
		}
		seq = s.NextSeq()
		zero := uint64(0)
		s.SendFrom(0, vh.BuildMsg(vh.MEstReq, &zero, seq, vh.NodeIDv4(s.IP), vh.FSEIDv4(uint64(0x700+n), s.IP),
			vh.Rule{Kind: "URR", ID: 1, Method: 2, Trig: 2}.CreateIE(), vh.Rule{Kind: "URR", ID: 2, Method: 2, Trig: 2}.CreateIE()))
		d := s.WaitRsp(seq, 5*time.Second)
		if d == nil || d.M == nil || d.M.Find(vh.TFSEID) == nil {
			res.Inconc("establishment unanswered")
			return
		}
		ups[n] = binary.BigEndian.Uint64(d.M.Find(vh.TFSEID).V[1:9])
	}
	var ops []c11Op
	var omu sync.Mutex
	type pending struct {
		key  c11Key
		call int64
		via  string
	}
	pend := map[uint64]pending{}
	var wg sync.WaitGroup
	serial := uint64(ci+1) * 10000000
	nper := rng.Range(15, 40)
	// query clients: the value comes back in the Modification Response
	for n, s := range fs.SMFs {
		for c := 0; c < 2; c++ {
			wg.Add(1)
			go func(n int, s *vh.SMF, c int) {
				defer wg.Done()
				r := vh.NewRng(vh.O.Seed, 0xc11c, uint64(ci), uint64(n*2+c))
				for i := 0; i < nper; i++ {
					u := uint32(1 + r.Intn(2))
					omu.Lock()
					seq := s.NextSeq()
					omu.Unlock()
					call := vh.Tick()
					s.SendFrom(0, vh.BuildMsg(vh.MModReq, &ups[n], seq, vh.Grp(vh.TQueryURR, vh.URRID(u))))
					d := s.WaitRsp(seq, 5*time.Second)
					ret := vh.Tick()
					if d == nil || d.M == nil {
						continue
					}
					for _, e := range d.M.FindAll(vh.TUsaRepMod) {
						x := vh.ParseURep(e)
						if x.URRID == u && x.HasSEQN {
							omu.Lock()
							ops = append(ops, c11Op{c11Key{n, u}, call, ret, x.SEQN, "modification-response"})
							omu.Unlock()
						}
					}
				}
			}(n, s, c)
		}
	}
	// kernel-origin reports: direct notifications and multicasts; the value comes back in a Session Report Request
	for p := 0; p < 3; p++ {
		wg.Add(1)
		go func(p int) {
			defer wg.Done()
			r := vh.NewRng(vh.O.Seed, 0xc11d, uint64(ci), uint64(p))
			for i := 0; i < nper; i++ {
				n := r.Intn(2)
				u := uint32(1 + r.Intn(2))
				sn := atomic.AddUint64(&serial, 1)
				omu.Lock()
				pend[sn] = pending{c11Key{n, u}, vh.Tick(), []string{"multicast", "notification", "notification"}[p]}
				omu.Unlock()
				if p == 0 {
					fs.D.MulticastAsync(mcastReport(ups[n], u, sn))
				} else {
					x := vh.UniqueUSAR(u, sn)
					x.USARTrigger.Flags = report.USAR_TRIG_VOLTH
					fs.Env.Srv.NotifySessReport(report.SessReport{SEID: ups[n], Reports: []report.Report{x}})
				}
				if r.Bool() {
					time.Sleep(time.Duration(r.Intn(200)) * time.Microsecond)
				}
			}
		}(p)
	}
	wg.Wait()
	deadline := time.Now().Add(10 * time.Second)
	for {
		mu.Lock()
		n := len(arrived)
		mu.Unlock()
		if n >= len(pend) || time.Now().After(deadline) {
			break
		}
		time.Sleep(2 * time.Millisecond)
	}
	mu.Lock()
	for sn, pd := range pend {
		a, ok := arrived[sn]
		if !ok {
			continue
		}
		ops = append(ops, c11Op{pd.key, pd.call, a.t, a.seqn, pd.via})
	}
	missing := len(pend) - len(arrived)
	mu.Unlock()
	if missing > 0 {
		drops := 0
		for _, s := range fs.SMFs {
			drops += s.Drops()
		}
		res.Inconc(fmt.Sprintf("case %d: %d reports did not arrive (socket drops %d)", ci, missing, drops))
	}
	var hist []porcupine.Operation
	for i, o := range ops {
		hist = append(hist, porcupine.Operation{ClientId: i % 7, Input: o.key, Call: o.call, Output: o.out, Return: o.ret})
	}
	result, _ := porcupine.CheckOperationsVerbose(c11Model, hist, 30*time.Second)
	res.Count("concurrent_histories", 1)
	res.Count("concurrent_operations", int64(len(ops)))
	switch result {
	case porcupine.Illegal:
		// find the offending key for the witness
		byKey := map[c11Key][]c11Op{}
		for _, o := range ops {
			byKey[o.key] = append(byKey[o.key], o)
		}
		var wit []string
		for k, l := range byKey {
			var h []porcupine.Operation
			for i, o := range l {
				h = append(h, porcupine.Operation{ClientId: i, Input: o.key, Call: o.call, Output: o.out, Return: o.ret})
			}
			if !porcupine.CheckOperations(c11Model, h) {
				for _, o := range l {
					wit = append(wit, fmt.Sprintf("session %d URR %d via %s: call %d return %d UR-SEQN %d", k.Sess, k.URR, o.via, o.call, o.ret, o.out))
				}
				break
			}
		}
		res.Violate(ci, "C11:concurrent-history-not-linearizable", "UR-SEQN values drawn concurrently through several carriers are not a linearizable fetch-and-increment sequence (gap, repeat, or order against real time)",
			map[string]interface{}{"history": wit})
	case porcupine.Unknown:
		res.Inconc(fmt.Sprintf("case %d: porcupine timed out", ci))
	}
	res.Eval(vh.Sig("conc", ci, len(ops)))
}
