// vrun: workload + monitor binary of the /verif framework.
//
//	vrun <check> -tier quick|thorough -seed N -worker W -workers N -out DIR [-only CASE] [-from CASE]
package main

import (
	"fmt"
	"os"
	"runtime/pprof"
	"strings"

	"github.com/free5gc/go-upf/internal/verif/vh"
)

var checks = map[string]func(*vh.Result){}

func main() {
	if len(os.Args) < 2 {
		fmt.Fprintln(os.Stderr, "usage: vrun <check> [flags]")
		os.Exit(2)
	}
	name := strings.ToLower(os.Args[1])
	fn, ok := checks[name]
	if !ok {
		fmt.Fprintf(os.Stderr, "unknown check %q\n", name)
		os.Exit(2)
	}
	vh.ParseOpts(name, os.Args[2:])
	vh.InitLogging()
	if pf := os.Getenv("VERIF_PROF"); pf != "" {
		f, _ := os.Create(pf)
		pprof.StartCPUProfile(f)
		defer pprof.StopCPUProfile()
	}
	res := vh.NewResult(strings.ToUpper(name))
	fn(res)
	res.Finish()
}

func init() {
	checks["c19"] = runC19
}
