package main

import (
	"bytes"
	"encoding/binary"
	"fmt"
	"reflect"
	"sync"
	"time"

	"github.com/free5gc/go-upf/internal/pfcp"
	"github.com/free5gc/go-upf/internal/report"
	"github.com/free5gc/go-upf/internal/verif/vh"
)

func init() { checks["c06"] = runC06 }

// one request instance of the C06 alphabet
type c06Inst struct {
	Kind string `json:"kind"` // hb assoc est mod del
	Node int    `json:"node"`
	Sock int    `json:"sock"`
	Seq  uint32 `json:"seq"`
	msg  []byte
}

type c06Ev struct {
	Expire bool `json:"expire"`
	Inst   int  `json:"inst"`
	// K, when set, is an event on the UPF's own (tx) side that shares the
	// "address-sequence" identifier space with the retained requests:
	// "report" (a Session Report Request with the instance's sequence number
	// goes out to the instance's node), "txexpire" (its retransmission timer
	// fires - possibly stale), "answer" (the node answers it).
	K string `json:"k,omitempty"`
}

type c06Case struct {
	Insts []c06Inst `json:"instances"`
	Evs   []c06Ev   `json:"events"`
}

var c06Kinds = []string{"hb", "assoc", "est", "mod", "del", "estc", "assocc"}

// c06Pick chooses the instances of a case from the PRNG: equal sequence
// numbers across peers wherever the sockets differ.
func c06Pick(rng *vh.Rng, k int) []c06Inst {
	var out []c06Inst
	used := map[[2]int]int{}
	taken := map[[3]uint32]bool{} // (node, socket, sequence) already given to an instance
	base := uint32(0x4200 + rng.Intn(4))
	for len(out) < k {
		in := c06Inst{Kind: c06Kinds[rng.Intn(len(c06Kinds))], Node: rng.Intn(2)}
		if in.Kind == "estc" || in.Kind == "assocc" {
			in.Node = 2 // a third node that is not associated by the preamble
		}
		if rng.Chance(1, 3) {
			in.Sock = 1
		}
		key := [2]int{in.Node, in.Sock}
		in.Seq = base + uint32(used[key]) // same socket: next number; other socket: same number
		if used[key] > 0 && rng.Chance(1, 3) {
			// same socket, a sequence number that differs from an earlier one only above bit 15 / in the top octet:
			// 24-bit sequence numbers are compared in full
			alt := (base + uint32(rng.Intn(used[key]))) ^ []uint32{0x010000, 0x020000, 0xff0000, 0x800000, 0x7f0000}[rng.Intn(5)]
			if !taken[[3]uint32{uint32(in.Node), uint32(in.Sock), alt}] {
				in.Seq = alt
			}
		}
		taken[[3]uint32{uint32(in.Node), uint32(in.Sock), in.Seq}] = true
		used[key]++
		out = append(out, in)
	}
	return out
}

func rxHas(sn *pfcp.VerifSnap, addr string, seq uint32) (bool, bool) {
	for _, r := range sn.Rx {
		if r.Addr == addr && r.Seq == seq {
			return true, r.HasRsp
		}
	}
	return false, false
}

func hasURR(v *pfcp.VerifSess, id uint32) bool {
	u, ok := v.URR[id]
	return ok && !u.Removed
}

func stripRx(sn *pfcp.VerifSnap, probe string) []pfcp.VerifRx {
	var out []pfcp.VerifRx
	for _, r := range sn.Rx {
		if r.Addr != probe {
			out = append(out, r)
		}
	}
	return out
}

// c06Inject: the logical-time part of C06 injects "the retention timer of (addr,seq) fired" through the exported
// NotifyTransTimeout. Whether this build honours such an event is probed once per process (a heartbeat is retained, its
// expiry injected, the entry must be gone); if it does not - e.g. retention is driven by deadlines in a shared timer
// queue - the injected expiries are left out of the sequences and release is decided by the real-timer cases alone.
var c06Inject struct {
	once  sync.Once
	works bool
}

func c06InjectWorks() bool {
	c06Inject.once.Do(func() {
		tap := &vh.Tap{Inner: vh.NewModelDP()}
		env, err := vh.StartEnv(tap, vh.EnvOpts{MaxRetrans: 3})
		if err != nil {
			return
		}
		defer env.Stop()
		s, err := vh.NewSMF(9, env.UPF, 0)
		if err != nil {
			return
		}
		defer s.Close()
		seq := s.NextSeq()
		s.SendFrom(0, vh.BuildMsg(vh.MHeartbeatReq, nil, seq, vh.RecoveryTS(7)))
		if env.Barrier() != nil {
			return
		}
		addr := s.Addr(0).String()
		if has, _ := rxHas(env.Srv.VerifSnapshot(), addr, seq); !has {
			return
		}
		env.Srv.NotifyTransTimeout(pfcp.RX, fmt.Sprintf("%s-%d", addr, seq))
		if env.Barrier() != nil {
			return
		}
		has, _ := rxHas(env.Srv.VerifSnapshot(), addr, seq)
		c06Inject.works = !has
	})
	return c06Inject.works
}

// c06Real: real retention timers (window 15..90 ms). Requests of answered and never-answered kinds are sent; three
// windows and 400 ms later their bookkeeping must be gone (bounded progress) and a byte-identical copy is a new request.
func c06Real(ci int, rng *vh.Rng, res *vh.Result) (finds [][2]string, abort string) {
	add := func(sig, desc string) { finds = append(finds, [2]string{"C06:" + sig, desc}) }
	rt := time.Duration(rng.Range(15, 30)) * time.Millisecond
	mr := uint8(rng.Intn(3))
	window := rt * time.Duration(mr+1)
	dp := vh.NewModelDP()
	tap := &vh.Tap{Inner: dp}
	vh.TakeFatals()
	env, err := vh.StartEnv(tap, vh.EnvOpts{MaxRetrans: mr, RetransTimeout: rt})
	if err != nil {
		return nil, "start: " + err.Error()
	}
	defer env.Stop()
	A, err := vh.NewSMF(2, env.UPF, 1)
	if err != nil {
		return nil, "smf: " + err.Error()
	}
	defer A.Close()
	C, err := vh.NewSMF(4, env.UPF, 0)
	if err != nil {
		return nil, "smf: " + err.Error()
	}
	defer C.Close()
	seq := A.NextSeq()
	A.SendFrom(0, vh.BuildMsg(vh.MAssocReq, nil, seq, vh.NodeIDv4(A.IP), vh.RecoveryTS(1)))
	if A.WaitRsp(seq, 2e9) == nil {
		return nil, "association unanswered"
	}
	type inst struct {
		s        *vh.SMF
		sock     int
		seq      uint32
		msg      []byte
		kind     string
		answered bool
		rsp      []byte
	}
	var insts []*inst
	zero := uint64(0)
	unknown := uint64(0x7777)
	n := rng.Range(3, 6)
	for k := 0; k < n; k++ {
		in := &inst{s: A, sock: rng.Intn(2)}
		in.seq = uint32(0x5000 + k)
		switch rng.Intn(5) {
		case 0:
			in.kind, in.answered = "heartbeat", true
			in.msg = vh.BuildMsg(vh.MHeartbeatReq, nil, in.seq, vh.RecoveryTS(7))
		case 1:
			in.kind, in.answered = "establishment", true
			in.msg = vh.BuildMsg(vh.MEstReq, &zero, in.seq, vh.NodeIDv4(A.IP), vh.FSEIDv4(uint64(0x70+k), A.IP), vh.Rule{Kind: "FAR", ID: 2, Action: 2}.CreateIE())
		case 2:
			in.kind, in.s, in.sock = "establishment-without-association", C, 0 // never answered
			in.msg = vh.BuildMsg(vh.MEstReq, &zero, in.seq, vh.NodeIDv4(C.IP), vh.FSEIDv4(uint64(0x80+k), C.IP), vh.Rule{Kind: "FAR", ID: 2, Action: 2}.CreateIE())
		case 3:
			in.kind = "association-update" // not implemented by the UPF: never answered
			in.msg = vh.BuildMsg(vh.MAssocUpdReq, nil, in.seq, vh.NodeIDv4(A.IP))
		default:
			in.kind, in.answered = "modification-of-an-unknown-session", true
			in.msg = vh.BuildMsg(vh.MModReq, &unknown, in.seq, vh.Rule{Kind: "FAR", ID: 9, Action: 1}.CreateIE())
		}
		insts = append(insts, in)
		in.s.SendFrom(in.sock, in.msg)
		if in.answered {
			if d := in.s.WaitRsp(in.seq, 2e9); d != nil {
				in.rsp = d.B
			}
		}
	}
	time.Sleep(3*window + 400*time.Millisecond)
	if err := env.Barrier(); err != nil {
		return nil, "barrier: " + err.Error()
	}
	sn := env.Srv.VerifSnapshot()
	for _, in := range insts {
		in.s.Take()
		addr := in.s.Addr(in.sock).String()
		if has, _ := rxHas(sn, addr, in.seq); has {
			add("entry-not-released-after-window", fmt.Sprintf("%s (%s,%d): its bookkeeping is still there %v after it was received (retention window %v)", in.kind, addr, in.seq, 3*window+400*time.Millisecond, window))
		}
		res.Count("real_window_requests", 1)
	}
	// a byte-identical copy after the window is a new request
	for _, in := range insts {
		if !in.answered || in.rsp == nil {
			continue
		}
		nc := len(tap.Calls)
		in.s.SendFrom(in.sock, in.msg)
		d := in.s.WaitRsp(in.seq, 2e9)
		switch {
		case d == nil:
			add("new-request-not-executed", fmt.Sprintf("%s (%d) sent again after the window was not answered", in.kind, in.seq))
		case in.kind == "establishment" && (bytes.Equal(d.B, in.rsp) || len(tap.Calls) == nc):
			add("mistaken-for-retransmission", fmt.Sprintf("establishment (%d) sent again after the window: %d data-plane calls, response identical to the first: %v", in.seq, len(tap.Calls)-nc, bytes.Equal(d.B, in.rsp)))
		}
		res.Count("copies_after_the_real_window", 1)
	}
	if fs := vh.TakeFatals(); len(fs) > 0 {
		add(vh.FaultSig(fs[0]), "fatal: "+fs[0])
	}
	return finds, ""
}

// c06Run executes one event sequence against a fresh server and checks it
// against the at-most-once table model. Returns findings (sig, desc).
func c06Run(c *c06Case, res *vh.Result) (finds [][2]string, abort string, ncalls int) {
	dp := vh.NewModelDP()
	tap := &vh.Tap{Inner: dp}
	vh.TakeFatals()
	env, err := vh.StartEnv(tap, vh.EnvOpts{MaxRetrans: 3})
	if err != nil {
		return nil, "start: " + err.Error(), 0
	}
	var smfs []*vh.SMF
	defer func() {
		for _, s := range smfs {
			s.Close()
		}
		env.Stop()
	}()
	for n := 0; n < 3; n++ {
		s, err := vh.NewSMF(n+2, env.UPF, 1)
		if err != nil {
			return nil, "smf: " + err.Error(), 0
		}
		smfs = append(smfs, s)
	}
	add := func(sig, desc string) { finds = append(finds, [2]string{"C06:" + sig, desc}) }
	// preamble: both nodes associated, one session each
	upseid := make([]uint64, 2)
	for n, s := range smfs[:2] {
		seq := s.NextSeq()
		s.SendFrom(0, vh.BuildMsg(vh.MAssocReq, nil, seq, vh.NodeIDv4(s.IP), vh.RecoveryTS(1)))
		if env.Barrier() != nil || s.WaitRsp(seq, 2e9) == nil {
			return nil, "preamble association unanswered", 0
		}
		seq = s.NextSeq()
		zero := uint64(0)
		s.SendFrom(0, vh.BuildMsg(vh.MEstReq, &zero, seq, vh.NodeIDv4(s.IP), vh.FSEIDv4(uint64(0x50+n), s.IP),
			vh.Rule{Kind: "FAR", ID: 1, Action: 2}.CreateIE(), vh.Rule{Kind: "URR", ID: 1, Method: 2, Trig: 2}.CreateIE(),
			vh.Rule{Kind: "PDR", ID: 1, FAR: 1, URRs: []uint32{1}}.CreateIE()))
		if env.Barrier() != nil {
			return nil, "preamble barrier", 0
		}
		d := s.WaitRsp(seq, 2e9)
		if d == nil || d.M == nil || d.M.Find(vh.TFSEID) == nil {
			return nil, "preamble establishment unanswered", 0
		}
		upseid[n] = binary.BigEndian.Uint64(d.M.Find(vh.TFSEID).V[1:9])
	}
	// build the instances' bytes (a retransmission is the same bytes from the same socket)
	for i := range c.Insts {
		in := &c.Insts[i]
		s := smfs[in.Node]
		switch in.Kind {
		case "hb":
			in.msg = vh.BuildMsg(vh.MHeartbeatReq, nil, in.Seq, vh.RecoveryTS(7))
		case "assoc", "assocc":
			in.msg = vh.BuildMsg(vh.MAssocReq, nil, in.Seq, vh.NodeIDv4(s.IP), vh.RecoveryTS(7))
		case "est", "estc":
			zero := uint64(0)
			in.msg = vh.BuildMsg(vh.MEstReq, &zero, in.Seq, vh.NodeIDv4(s.IP), vh.FSEIDv4(uint64(0x60+i), s.IP),
				vh.Rule{Kind: "FAR", ID: 2, Action: 2}.CreateIE(), vh.Rule{Kind: "QER", ID: 1, QFI: 5}.CreateIE())
		case "mod":
			in.msg = vh.BuildMsg(vh.MModReq, &upseid[in.Node], in.Seq, vh.Rule{Kind: "FAR", ID: uint64(10 + i), Action: 1}.CreateIE(),
				vh.Grp(vh.TQueryURR, vh.URRID(1)))
		case "del":
			in.msg = vh.BuildMsg(vh.MDelReq, &upseid[in.Node], in.Seq)
		}
	}
	type entry struct {
		rsp []byte // nil: none produced
	}
	seenRep := map[int]int{}
	cAssoc := false           // node C currently associated
	table := map[int]*entry{} // instance index -> cached response (instances have distinct (addr,seq) by construction)
	keyOf := func(i int) (string, uint32) {
		in := c.Insts[i]
		return smfs[in.Node].Addr(in.Sock).String(), in.Seq
	}
	type txReq struct {
		retries int
		bytes   []byte
	}
	txOut := map[string]*txReq{} // outstanding UPF-initiated requests by transaction id
	serial := uint64(0)
	retained := func(post *pfcp.VerifSnap, ei int, what string) {
		for j := range c.Insts {
			if table[j] == nil {
				continue
			}
			a2, s2 := keyOf(j)
			if has, _ := rxHas(post, a2, s2); !has {
				add("tx-event-released-retained-request", fmt.Sprintf("event %d: %s released the retained request (%s,%d)", ei, what, a2, s2))
			}
		}
	}
	for ei, ev := range c.Evs {
		in := c.Insts[ev.Inst]
		s := smfs[in.Node]
		addr, seq := keyOf(ev.Inst)
		pre := env.Srv.VerifSnapshot()
		dpPre := dp.Table()
		nc := len(tap.Calls)
		if ev.K != "" {
			if in.Node > 1 {
				continue
			}
			id := fmt.Sprintf("%s-%d", s.Addr(0).String(), in.Seq)
			q := txOut[id]
			switch ev.K {
			case "report":
				if q != nil {
					continue
				}
				up := upseid[in.Node]
				if up == 0 || int(up) > len(pre.Slots) || pre.Slots[up-1] == nil || pre.Slots[up-1].NodeAddr != s.Addr(0).String() ||
					!hasURR(pre.Slots[up-1], 1) {
					continue // the preamble session is gone (deleted / re-associated / slot reused): nothing to report on
				}
				serial++
				r := vh.UniqueUSAR(1, serial)
				r.USARTrigger.Flags = report.USAR_TRIG_VOLTH
				env.Srv.VerifSetTxSeq(in.Seq)
				env.Srv.NotifySessReport(report.SessReport{SEID: up, Reports: []report.Report{r}})
			case "txexpire":
				env.Srv.NotifyTransTimeout(pfcp.TX, id)
			case "answer":
				if q == nil {
					continue
				}
				up := upseid[in.Node]
				s.SendFrom(0, vh.BuildMsg(vh.MRepRsp, &up, in.Seq, vh.Cause(vh.CauseAccepted)))
			}
			if err := env.Barrier(); err != nil {
				return finds, "barrier after tx event: " + err.Error(), len(tap.Calls)
			}
			post := env.Srv.VerifSnapshot()
			var got []*vh.Datagram
			for n2, s2 := range smfs {
				s2.Pump()
				for _, d := range s2.Take() {
					add("stray-datagram", fmt.Sprintf("event %d (%s): unexpected datagram at SMF %d: %v", ei, ev.K, n2, d.M))
				}
				rs := s2.ReportsSnapshot()
				for _, d := range rs[seenRep[n2]:] {
					if n2 != in.Node || d.Sock != 0 {
						add("misrouted", fmt.Sprintf("event %d (%s): Session Report Request arrived at SMF %d socket %d", ei, ev.K, n2, d.Sock))
					}
					got = append(got, d)
				}
				seenRep[n2] = len(rs)
			}
			retained(post, ei, ev.K+" of "+id)
			res.Count("tx_side_events", 1)
			if table[ev.Inst] != nil && in.Sock == 0 {
				res.Count("tx_events_on_an_id_shared_with_a_retained_request", 1)
			}
			if len(tap.Calls) != nc {
				add("tx-event-side-effect", fmt.Sprintf("event %d (%s): data-plane calls %s", ei, ev.K, vh.J(tap.Calls[nc:])))
			}
			inTx := false
			for _, t := range post.Tx {
				if t.ID == id {
					inTx = true
				}
			}
			switch ev.K {
			case "report":
				if len(got) != 1 || got[0].M == nil || got[0].M.Seq != in.Seq || !inTx {
					add("report-not-sent", fmt.Sprintf("event %d: report with sequence %d: %d datagrams, bookkeeping %v", ei, in.Seq, len(got), inTx))
					continue
				}
				txOut[id] = &txReq{bytes: got[0].B}
			case "txexpire":
				switch {
				case q == nil:
					if len(got) > 0 || !reflect.DeepEqual(pre.Tx, post.Tx) {
						add("stale-tx-timeout-effect", fmt.Sprintf("event %d: a timer event for %s, which is not outstanding, produced %d datagrams / changed the table", ei, id, len(got)))
					}
				case q.retries < 3:
					q.retries++
					if len(got) != 1 || !bytes.Equal(got[0].B, q.bytes) || !inTx {
						add("tx-retransmission", fmt.Sprintf("event %d: expiry %d of %s: %d datagrams, bookkeeping %v", ei, q.retries, id, len(got), inTx))
					}
				default:
					if len(got) > 0 || inTx {
						add("tx-not-abandoned", fmt.Sprintf("event %d: %s exhausted its retries: %d datagrams, bookkeeping %v", ei, id, len(got), inTx))
					}
					delete(txOut, id)
				}
			case "answer":
				if len(got) > 0 || inTx {
					add("tx-not-completed", fmt.Sprintf("event %d: %s was answered: %d datagrams, bookkeeping %v", ei, id, len(got), inTx))
				}
				delete(txOut, id)
			}
			continue
		}
		if ev.Expire && !c06InjectWorks() {
			res.Count("injected_expiries_left_out(build_does_not_honour_them)", 1)
			continue
		}
		if ev.Expire {
			if txOut[fmt.Sprintf("%s-%d", addr, seq)] != nil {
				res.Count("retention_expiries_on_an_id_shared_with_an_outstanding_report", 1)
			}
			env.Srv.NotifyTransTimeout(pfcp.RX, fmt.Sprintf("%s-%d", addr, seq))
			if err := env.Barrier(); err != nil {
				return finds, "barrier after expiry: " + err.Error(), len(tap.Calls)
			}
			post := env.Srv.VerifSnapshot()
			for n2, s2 := range smfs {
				s2.Pump()
				rs := s2.ReportsSnapshot()
				if len(rs) > seenRep[n2] || len(s2.Take()) > 0 {
					add("expiry-side-effect", fmt.Sprintf("event %d: retention expiry of (%s,%d) made the UPF send a datagram to SMF %d", ei, addr, seq, n2))
				}
				seenRep[n2] = len(rs)
			}
			if !reflect.DeepEqual(pre.Tx, post.Tx) {
				add("expiry-side-effect", fmt.Sprintf("event %d: retention expiry of (%s,%d) changed the table of outstanding requests", ei, addr, seq))
			}
			if has, _ := rxHas(post, addr, seq); has {
				add("entry-not-released", fmt.Sprintf("event %d: after the retention timer of (%s,%d) expired its bookkeeping is still present", ei, addr, seq))
			}
			if len(tap.Calls) != nc || !reflect.DeepEqual(pre.Slots, post.Slots) || !reflect.DeepEqual(dpPre, dp.Table()) {
				add("expiry-side-effect", fmt.Sprintf("event %d: retention expiry changed session or data-plane state", ei))
			}
			// other entries must survive
			for j := range c.Insts {
				if j == ev.Inst || table[j] == nil {
					continue
				}
				a2, s2 := keyOf(j)
				if has, _ := rxHas(post, a2, s2); !has {
					add("expiry-removed-other-entry", fmt.Sprintf("event %d: expiry of (%s,%d) also released (%s,%d)", ei, addr, seq, a2, s2))
				}
			}
			delete(table, ev.Inst)
			continue
		}
		s.SendFrom(in.Sock, in.msg)
		if err := env.Barrier(); err != nil {
			if fs := vh.TakeFatals(); len(fs) > 0 {
				add(vh.FaultSig(fs[0]), "fatal: "+fs[0])
				return finds, "", len(tap.Calls)
			}
			return finds, "barrier: " + err.Error(), len(tap.Calls)
		}
		var rsp *vh.Datagram
		for _, d := range s.Take() {
			if d.M != nil && d.M.Seq == in.Seq && d.Sock == in.Sock && rsp == nil {
				rsp = d
			} else {
				add("stray-datagram", fmt.Sprintf("event %d: unexpected datagram at SMF %d socket %d: type %v", ei, in.Node, d.Sock, d.M))
			}
		}
		for n2, s2 := range smfs {
			if s2 != s {
				for _, d := range s2.Take() {
					add("misrouted", fmt.Sprintf("event %d: datagram for SMF %d arrived at SMF %d (%v)", ei, in.Node, n2, d.M))
				}
			}
		}
		post := env.Srv.VerifSnapshot()
		calls := tap.Calls[nc:]
		if e, dup := table[ev.Inst]; dup {
			// ---- retransmission inside the window ----
			if len(calls) > 0 {
				add("duplicate-executed", fmt.Sprintf("event %d: retransmitted %s (%s,%d) caused data-plane calls %s", ei, in.Kind, addr, seq, vh.J(calls)))
			}
			if !reflect.DeepEqual(pre.Slots, post.Slots) || !reflect.DeepEqual(pre.Free, post.Free) || !reflect.DeepEqual(pre.Nodes, post.Nodes) ||
				!reflect.DeepEqual(dpPre, dp.Table()) {
				add("duplicate-changed-state", fmt.Sprintf("event %d: retransmitted %s (%s,%d) changed session, node or data-plane state", ei, in.Kind, addr, seq))
			}
			switch {
			case e.rsp == nil && rsp != nil:
				add("duplicate-answered-without-original", fmt.Sprintf("event %d: the first copy of %s (%s,%d) produced no response but the retransmission was answered", ei, in.Kind, addr, seq))
			case e.rsp != nil && rsp == nil:
				add("duplicate-not-reanswered", fmt.Sprintf("event %d: retransmitted %s (%s,%d) was not re-answered", ei, in.Kind, addr, seq))
			case e.rsp != nil && !bytes.Equal(e.rsp, rsp.B):
				add("duplicate-answer-differs", fmt.Sprintf("event %d: retransmitted %s (%s,%d) re-answered with %x, original %x", ei, in.Kind, addr, seq, rsp.B, e.rsp))
			}
			continue
		}
		// ---- first copy (or first copy after the window elapsed): executed as new ----
		e := &entry{}
		if rsp != nil {
			e.rsp = rsp.B
		}
		table[ev.Inst] = e
		has, _ := rxHas(post, addr, seq)
		if !has {
			add("no-bookkeeping", fmt.Sprintf("event %d: no retention entry for (%s,%d) after its first copy", ei, addr, seq))
		}
		// executed as new: always-answered kinds must be answered with their own, freshly built response
		answered := in.Kind == "hb" || in.Kind == "assoc" || in.Kind == "mod" || in.Kind == "del" || in.Kind == "est" || in.Kind == "assocc" ||
			(in.Kind == "estc" && cAssoc)
		if in.Kind == "assocc" {
			cAssoc = true
		}
		if in.Kind == "estc" && !cAssoc {
			if rsp != nil || len(calls) > 0 {
				add("unassociated-est-executed", fmt.Sprintf("event %d: establishment under a node that is not associated was executed", ei))
			}
			continue
		}
		if answered && rsp == nil {
			add("new-request-not-executed", fmt.Sprintf("event %d: %s (%s,%d) is not a retransmission (other address/sequence or window elapsed) but was not answered", ei, in.Kind, addr, seq))
			continue
		}
		if rsp != nil && rsp.M != nil {
			want := map[string]uint8{"hb": vh.MHeartbeatRsp, "assoc": vh.MAssocRsp, "assocc": vh.MAssocRsp, "est": vh.MEstRsp, "estc": vh.MEstRsp,
				"mod": vh.MModRsp, "del": vh.MDelRsp}[in.Kind]
			if rsp.M.Type != want {
				add("mistaken-for-retransmission", fmt.Sprintf("event %d: %s (%s,%d) answered with message type %d (another request's cached response?)", ei, in.Kind, addr, seq, rsp.M.Type))
			}
			if (in.Kind == "est" || in.Kind == "estc") && rsp.M.CauseVal() == vh.CauseAccepted {
				if rsp.M.SEID != uint64(0x60+ev.Inst) {
					add("mistaken-for-retransmission", fmt.Sprintf("event %d: establishment (%s,%d) answered with SEID %#x, want its own CP-SEID %#x", ei, addr, seq, rsp.M.SEID, 0x60+ev.Inst))
				}
				if len(calls) != 2 {
					add("new-request-not-executed", fmt.Sprintf("event %d: establishment (%s,%d) is new but caused %d data-plane calls, want 2", ei, addr, seq, len(calls)))
				}
			}
			if in.Kind == "mod" && rsp.M.CauseVal() == vh.CauseAccepted && len(calls) == 0 {
				add("new-request-not-executed", fmt.Sprintf("event %d: modification (%s,%d) is new and accepted but caused no data-plane call", ei, addr, seq))
			}
		}
	}
	if fs := vh.TakeFatals(); len(fs) > 0 {
		add(vh.FaultSig(fs[0]), "fatal: "+fs[0])
	}
	return finds, "", len(tap.Calls)
}

func runC06(res *vh.Result) {
	res.Rule = "per case 3 request instances (heartbeat/association/establishment/modification/deletion from 2 SMFs x 2 sockets, equal sequence numbers " +
		"across sockets) chosen by the PRNG; all event sequences over {send i, expire i} up to the tier's depth are enumerated for the first instance sets, " +
		"then random sequences to depth 30; non-trivial = contains a duplicate inside the window or a send after an expiry; distinct = distinct (instances, event sequence)"
	res.Assumptions = []string{
		"retention expiry is injected through the exported NotifyTransTimeout (real timers are 1 h); the window is therefore a logical one",
		"transaction tables are read through a build-tagged hook at quiescence",
	}
	depth := vh.Tiered(4, 6)
	sets := vh.Tiered(3, 6)
	// enumerate sequences of exactly `depth` events (prefix behaviour is covered by the longer sequence)
	pow := 1
	for i := 0; i < depth; i++ {
		pow *= 6
	}
	nexh := sets * pow
	nrand := vh.Tiered(2000, 50000)
	nreal := vh.Tiered(64, 1600)
	res.Cases(nexh+nrand+nreal, func(i int, rng *vh.Rng) {
		c06InjectWorks() // probed once per process, before the case's own server exists
		if i >= nexh+nrand {
			finds, abort := c06Real(i, rng, res)
			if abort != "" {
				res.Inconc(fmt.Sprintf("case %d: %s", i, abort))
			}
			seen := map[string]bool{}
			for _, f := range finds {
				if !seen[f[0]] {
					seen[f[0]] = true
					res.Violate(i, f[0], f[1], map[string]interface{}{"kind": "real retention timers"})
				}
			}
			res.Eval(vh.Sig("real", i))
			res.Count("real_window_cases", 1)
			return
		}
		var c c06Case
		if i < nexh {
			set := i / pow
			c.Insts = c06Pick(vh.NewRng(vh.O.Seed, 0xc06, uint64(set)), 3)
			x := i % pow
			for d := 0; d < depth; d++ {
				a := x % 6
				x /= 6
				c.Evs = append(c.Evs, c06Ev{Expire: a >= 3, Inst: a % 3})
			}
		} else {
			k := rng.Range(3, 4)
			c.Insts = c06Pick(rng, k)
			n := rng.Range(6, 30)
			txside := i%2 == 1
			for d := 0; d < n; d++ {
				ev := c06Ev{Expire: rng.Chance(1, 4), Inst: rng.Intn(k)}
				if txside && rng.Chance(1, 3) {
					ev = c06Ev{Inst: ev.Inst, K: []string{"report", "report", "txexpire", "txexpire", "answer"}[rng.Intn(5)]}
				}
				c.Evs = append(c.Evs, ev)
			}
		}
		finds, abort, ncalls := c06Run(&c, res)
		if abort != "" {
			res.Inconc(fmt.Sprintf("case %d: %s", i, abort))
		}
		seen := map[string]bool{}
		for _, f := range finds {
			if !seen[f[0]] {
				seen[f[0]] = true
				res.Violate(i, f[0], f[1], c)
			}
		}
		// non-trivial: a duplicate inside the window or a send after expiry
		sent := map[int]bool{}
		expired := map[int]bool{}
		nt := false
		dups, resent := 0, 0
		for _, ev := range c.Evs {
			if ev.Expire {
				if sent[ev.Inst] {
					expired[ev.Inst] = true
					sent[ev.Inst] = false
				}
				continue
			}
			if sent[ev.Inst] {
				nt = true
				dups++
			} else if expired[ev.Inst] {
				nt = true
				resent++
			}
			sent[ev.Inst] = true
		}
		sig := ""
		if nt {
			sig = vh.Sig(vh.J(c))
		}
		res.Eval(sig)
		res.Count("events", int64(len(c.Evs)))
		res.Count("duplicates_in_window", int64(dups))
		res.Count("sends_after_expiry", int64(resent))
		res.Count("driver_calls", int64(ncalls))
		if i%pow == pow/2 || i == nexh {
			res.Sample(c)
		}
	}, nil)
}
