//go:build verif

// Verification hooks (build tag "verif"): additive, read-only views of the
// PFCP server state plus one positioning helper. Overlaid into the package at
// build time by /verif/tools/vcheck.py; never present in a normal build.
package pfcp

import (
	"sort"
)

type VerifURR struct {
	SEQN    uint32
	Removed bool
	Ref     uint16
	DURAT   bool
	VOLUM   bool
	EVENT   bool
	MNOP    bool
}

type VerifSess struct {
	LocalID  uint64
	RemoteID uint64
	NodeID   string
	NodeAddr string
	PDR      map[uint16][]uint32
	FAR      []uint32
	QER      []uint32
	URR      map[uint32]VerifURR
	BAR      []uint8
	Q        map[uint16]int
}

type VerifNode struct {
	Key  string
	ID   string
	Addr string
	Sess []uint64
}

type VerifTx struct {
	ID      string
	Seq     uint32
	Addr    string
	Retrans uint8
	Timer   bool
}

type VerifRx struct {
	ID     string
	Seq    uint32
	Addr   string
	HasRsp bool
	Timer  bool
}

type VerifSnap struct {
	Slots []*VerifSess // index i <-> SEID i+1; nil = empty slot
	Free  []uint64
	Nodes []VerifNode
	Tx    []VerifTx
	Rx    []VerifRx
	TxSeq uint32
}

func sortedU32(m map[uint32]struct{}) []uint32 {
	out := make([]uint32, 0, len(m))
	for k := range m {
		out = append(out, k)
	}
	sort.Slice(out, func(i, j int) bool { return out[i] < out[j] })
	return out
}

// VerifQueueLens returns the current length of the three input queues of the
// event loop (receive, session report, transaction timeout).
func (s *PfcpServer) VerifQueueLens() (int, int, int) {
	return len(s.rcvCh), len(s.srCh), len(s.trToCh)
}

// VerifQueueCaps returns the capacities of the same queues.
func (s *PfcpServer) VerifQueueCaps() (int, int, int) {
	return cap(s.rcvCh), cap(s.srCh), cap(s.trToCh)
}

// VerifSetTxSeq positions the counter used for UPF-initiated requests.
// Only called before any report is injected.
func (s *PfcpServer) VerifSetTxSeq(v uint32) {
	s.txSeq = v
}

func verifSess(x *Sess) *VerifSess {
	v := &VerifSess{
		LocalID:  x.LocalID,
		RemoteID: x.RemoteID,
		PDR:      map[uint16][]uint32{},
		URR:      map[uint32]VerifURR{},
		Q:        map[uint16]int{},
	}
	if x.rnode != nil {
		v.NodeID = x.rnode.ID
		if x.rnode.addr != nil {
			v.NodeAddr = x.rnode.addr.String()
		}
	}
	for id, p := range x.PDRIDs {
		if p == nil {
			v.PDR[id] = nil
			continue
		}
		v.PDR[id] = sortedU32(p.RelatedURRIDs)
	}
	v.FAR = sortedU32(x.FARIDs)
	v.QER = sortedU32(x.QERIDs)
	for id, u := range x.URRIDs {
		if u == nil {
			continue
		}
		v.URR[id] = VerifURR{
			SEQN: u.SEQN, Removed: u.removed, Ref: u.refPdrNum,
			DURAT: u.DURAT, VOLUM: u.VOLUM, EVENT: u.EVENT, MNOP: u.MNOP,
		}
	}
	for id := range x.BARIDs {
		v.BAR = append(v.BAR, id)
	}
	sort.Slice(v.BAR, func(i, j int) bool { return v.BAR[i] < v.BAR[j] })
	for id, q := range x.q {
		v.Q[id] = len(q)
	}
	return v
}

// VerifSnapshot deep-copies the session table, free list, node table and
// transaction tables. It must only be called while the event loop is idle
// (after a quiescence barrier) and never in race-detector builds.
func (s *PfcpServer) VerifSnapshot() *VerifSnap {
	sn := &VerifSnap{TxSeq: s.txSeq}
	for _, x := range s.lnode.sess {
		if x == nil {
			sn.Slots = append(sn.Slots, nil)
			continue
		}
		sn.Slots = append(sn.Slots, verifSess(x))
	}
	sn.Free = append(sn.Free, s.lnode.free...)
	for key, n := range s.rnodes {
		vn := VerifNode{Key: key, ID: n.ID}
		if n.addr != nil {
			vn.Addr = n.addr.String()
		}
		for id := range n.sess {
			vn.Sess = append(vn.Sess, id)
		}
		sort.Slice(vn.Sess, func(i, j int) bool { return vn.Sess[i] < vn.Sess[j] })
		sn.Nodes = append(sn.Nodes, vn)
	}
	sort.Slice(sn.Nodes, func(i, j int) bool { return sn.Nodes[i].Key < sn.Nodes[j].Key })
	for id, tx := range s.txTrans {
		sn.Tx = append(sn.Tx, VerifTx{
			ID: id, Seq: tx.seq, Addr: tx.raddr.String(),
			Retrans: tx.retransCount, Timer: tx.timer != nil,
		})
	}
	sort.Slice(sn.Tx, func(i, j int) bool { return sn.Tx[i].ID < sn.Tx[j].ID })
	for id, rx := range s.rxTrans {
		sn.Rx = append(sn.Rx, VerifRx{
			ID: id, Seq: rx.seq, Addr: rx.raddr.String(),
			HasRsp: len(rx.msgBuf) > 0, Timer: rx.timer != nil,
		})
	}
	sort.Slice(sn.Rx, func(i, j int) bool { return sn.Rx[i].ID < sn.Rx[j].ID })
	return sn
}
