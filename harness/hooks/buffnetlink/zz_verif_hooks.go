//go:build verif

// Verification hook (build tag "verif"): a buffering listener that is not
// subscribed to the kernel's multicast group. Messages are delivered by the
// harness through the exported ServeMsg. Additive only.
package buffnetlink

import (
	"syscall"

	"github.com/khirono/go-nl"
)

func VerifNewServer(client *nl.Client, mux *nl.Mux) (*Server, error) {
	s := &Server{
		client: client,
		mux:    mux,
	}
	// a plain generic-netlink socket (no multicast group): gives Close()
	// the same object to pop and close as in production
	conn, err := nl.Open(syscall.NETLINK_GENERIC)
	if err != nil {
		return nil, err
	}
	s.conn = conn
	err = s.mux.PushHandler(s.conn, s)
	if err != nil {
		conn.Close()
		return nil, err
	}
	return s, nil
}
