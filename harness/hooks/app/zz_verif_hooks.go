//go:build verif

// Verification hook (build tag "verif"): Run() with the driver injected and
// the interrupt signal replaced by a channel. Uses the real
// listenShutdownEvent / WaitRoutineStopped. Additive only.
package app

import (
	"context"
	"sync"

	"github.com/free5gc/go-upf/internal/forwarder"
	"github.com/free5gc/go-upf/internal/pfcp"
)

func (u *UpfApp) VerifWG() *sync.WaitGroup { return &u.wg }

func (u *UpfApp) VerifRun(driver forwarder.Driver, ready chan<- *pfcp.PfcpServer, stop <-chan struct{}) {
	var cancel context.CancelFunc
	u.ctx, cancel = context.WithCancel(context.Background())
	defer cancel()

	u.wg.Add(1)
	go u.listenShutdownEvent()

	u.driver = driver
	u.pfcpServer = pfcp.NewPfcpServer(u.cfg, u.driver)
	u.driver.HandleReport(u.pfcpServer)
	u.pfcpServer.Start(&u.wg)
	ready <- u.pfcpServer

	<-stop
	cancel()
	u.WaitRoutineStopped()
}
