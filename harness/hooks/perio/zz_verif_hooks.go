//go:build verif

// Verification hooks (build tag "verif"): tick injection and read-only views
// of the periodic report server. Additive only.
package perio

import (
	"sort"
	"time"
)

// VerifInjectTick posts the event a ticker of the given period posts.
func (s *Server) VerifInjectTick(period time.Duration) {
	s.evtCh <- Event{
		eType:  TYPE_PERIO_TIMEOUT,
		period: period,
	}
}

// VerifTryInjectTick is the non-blocking variant; false when the queue is full.
func (s *Server) VerifTryInjectTick(period time.Duration) bool {
	select {
	case s.evtCh <- Event{eType: TYPE_PERIO_TIMEOUT, period: period}:
		return true
	default:
		return false
	}
}

func (s *Server) VerifQueueLen() (int, int) {
	return len(s.evtCh), cap(s.evtCh)
}

type VerifGroup struct {
	Period time.Duration
	Ticker bool
	URRs   map[uint64][]uint32
}

// VerifGroups copies the registration table. Only to be called while the
// server goroutine is idle (after a sentinel barrier), never in race builds.
func (s *Server) VerifGroups() []VerifGroup {
	var out []VerifGroup
	for p, g := range s.perioList {
		vg := VerifGroup{Period: p, Ticker: g.ticker != nil, URRs: map[uint64][]uint32{}}
		for seid, ids := range g.urrids {
			var l []uint32
			for id := range ids {
				l = append(l, id)
			}
			sort.Slice(l, func(i, j int) bool { return l[i] < l[j] })
			vg.URRs[seid] = l
		}
		out = append(out, vg)
	}
	sort.Slice(out, func(i, j int) bool { return out[i].Period < out[j].Period })
	return out
}
