//go:build verif

// Verification hooks (build tag "verif"): assemble the real Gtp5g driver
// around harness-provided netlink connections, exactly as OpenGtp5g does once
// its sockets exist. Additive only.
package forwarder

import (
	"net"
	"sync"

	"github.com/khirono/go-nl"

	"github.com/free5gc/go-gtp5gnl"
	"github.com/free5gc/go-upf/internal/forwarder/buffnetlink"
	"github.com/free5gc/go-upf/internal/forwarder/perio"
	"github.com/free5gc/go-upf/internal/logger"
	logger_util "github.com/free5gc/util/logger"
)

type VerifGtp5gOpts struct {
	Conn    nl.Conner // generic netlink connection used by the event loop
	PsConn  nl.Conner // generic netlink connection used by the perio server
	RtConn  nl.Conner // route netlink connection (link removal on Close)
	Family  int
	IfIndex int
	UDP     *net.UDPConn // GTP-U socket used for re-injection
	NoPerio bool
	NoBuff  bool
}

// VerifNewGtp5g builds a Gtp5g whose netlink traffic goes to the given
// connections. It runs the real checkVersion, starts the real mux, perio
// server and buffering listener (without the multicast socket).
func VerifNewGtp5g(wg *sync.WaitGroup, o VerifGtp5gOpts) (*Gtp5g, error) {
	g := &Gtp5g{
		log: logger.FwderLog.WithField(logger_util.FieldCategory, "Gtp5g"),
	}
	mux, err := nl.NewMux()
	if err != nil {
		return nil, err
	}
	wg.Add(1)
	go func() {
		defer wg.Done()
		err := mux.Serve()
		if err != nil {
			g.log.Warnf("mux Serve err: %+v", err)
		}
	}()
	g.mux = mux

	g.link = &Gtp5gLink{
		mux:  mux,
		link: &gtp5gnl.Link{Name: "upfgtp", Index: o.IfIndex},
		conn: o.UDP,
		log:  g.log,
	}
	// RtConn is mandatory: Gtp5gLink.Close removes the link through it.
	g.link.client = nl.NewClient(o.RtConn, mux)

	g.client = &gtp5gnl.Client{Client: nl.NewClient(o.Conn, mux), ID: o.Family}
	if o.PsConn != nil {
		g.psClient = &gtp5gnl.Client{Client: nl.NewClient(o.PsConn, mux), ID: o.Family}
	}

	err = g.checkVersion()
	if err != nil {
		g.verifClose()
		return nil, err
	}

	if !o.NoBuff {
		bsnl, err := buffnetlink.VerifNewServer(g.client.Client, mux)
		if err != nil {
			g.verifClose()
			return nil, err
		}
		g.bsnl = bsnl
	}
	if !o.NoPerio {
		ps, err := perio.OpenServer(wg)
		if err != nil {
			g.verifClose()
			return nil, err
		}
		g.ps = ps
	}
	return g, nil
}

// verifClose releases what VerifNewGtp5g created when start-up fails, the
// way OpenGtp5g does.
func (g *Gtp5g) verifClose() {
	g.Close()
}

func (g *Gtp5g) VerifPerio() *perio.Server      { return g.ps }
func (g *Gtp5g) VerifBuff() *buffnetlink.Server { return g.bsnl }

// VerifCheckVersion runs the real version gate against the current client.
func (g *Gtp5g) VerifCheckVersion() error { return g.checkVersion() }

// VerifQueryMulti exposes the batching query used by the perio server.
func (g *Gtp5g) VerifQueryMulti(m map[uint64][]uint32) error {
	_, err := g.psQueryURR(m)
	return err
}

// VerifMux exposes the netlink multiplexer so that the harness can attach a
// simulated multicast connection to it (deliveries then run on the real mux
// goroutine, exactly as in production).
func (g *Gtp5g) VerifMux() *nl.Mux { return g.mux }
