package vh

import (
	"fmt"
	"strings"
)

// GenFlow generates a flow description of the supported IPFilterRule form.
func GenFlow(r *Rng) string {
	sp := func() string {
		switch r.Intn(6) {
		case 0:
			return "  "
		case 1:
			return "\t"
		case 2:
			return " \t "
		}
		return " "
	}
	addr := func() string {
		switch r.Intn(6) {
		case 0:
			return "any"
		case 1:
			return "assigned"
		case 2:
			return fmt.Sprintf("%d.%d.%d.%d", r.Intn(256), r.Intn(256), r.Intn(256), r.Intn(256))
		case 3:
			b := []int{0, 1, 127, 128, 255}
			return fmt.Sprintf("%d.%d.%d.%d", b[r.Intn(5)], b[r.Intn(5)], b[r.Intn(5)], b[r.Intn(5)])
		default:
			// prefix with host bits set
			return fmt.Sprintf("%d.%d.%d.%d/%d", r.Intn(256), r.Intn(256), r.Intn(256), r.Intn(256), r.Intn(33))
		}
	}
	port := func() int {
		switch r.Intn(5) {
		case 0:
			return []int{0, 1, 80, 65535, 65534, 1024, 32768}[r.Intn(7)]
		}
		return r.Intn(65536)
	}
	ports := func() string {
		n := r.Intn(9)
		if n == 0 {
			return ""
		}
		var items []string
		for i := 0; i < n; i++ {
			if r.Bool() {
				items = append(items, fmt.Sprint(port()))
			} else {
				a, b := port(), port()
				if a > b {
					a, b = b, a
				}
				if r.Chance(1, 8) {
					b = a
				}
				items = append(items, fmt.Sprintf("%d-%d", a, b))
			}
		}
		return strings.Join(items, ",")
	}
	proto := "ip"
	if r.Chance(3, 4) {
		proto = fmt.Sprint(r.Intn(256))
	}
	var b strings.Builder
	if r.Chance(1, 10) {
		b.WriteString(sp())
	}
	b.WriteString("permit" + sp() + []string{"in", "out"}[r.Intn(2)] + sp() + proto + sp() + "from" + sp() + addr())
	if p := ports(); p != "" {
		b.WriteString(sp() + p)
	}
	b.WriteString(sp() + "to" + sp() + addr())
	if p := ports(); p != "" {
		b.WriteString(sp() + p)
	}
	if r.Chance(1, 10) {
		b.WriteString(sp())
	}
	return b.String()
}

// GenJunkFlow produces near-miss mutations of valid rules and arbitrary bytes.
func GenJunkFlow(r *Rng) string {
	switch r.Intn(9) {
	case 8: // cut after a whole token (a description that simply ends early)
		t := strings.Fields(GenFlow(r))
		return strings.Join(t[:r.Intn(len(t)+1)], " ")
	case 0:
		return string(r.Bytes(r.Intn(40)))
	case 1:
		return ""
	case 2:
		s := GenFlow(r)
		return s[:r.Intn(len(s)+1)]
	case 3: // delete a token
		t := strings.Fields(GenFlow(r))
		i := r.Intn(len(t))
		return strings.Join(append(t[:i:i], t[i+1:]...), " ")
	case 4: // duplicate a token
		t := strings.Fields(GenFlow(r))
		i := r.Intn(len(t))
		t = append(t[:i+1], t[i:]...)
		return strings.Join(t, " ")
	case 5: // out-of-range numbers
		junk := []string{"256", "65536", "-1", "99999999999999999999", "1.2.3.4/33", "1.2.3.4/-1", "300.1.1.1", "1.2.3", "1.2.3.4.5",
			"1-", "-1", "1,,2", ",", "-", "5-4-3", "::1", "2001:db8::/32", "fe80::1/129", "any/8", "0x10", "1e3", "１２"}
		t := strings.Fields(GenFlow(r))
		t[r.Intn(len(t))] = junk[r.Intn(len(junk))]
		return strings.Join(t, " ")
	case 6: // replace a random byte
		s := []byte(GenFlow(r))
		s[r.Intn(len(s))] = byte(r.U64())
		return string(s)
	default:
		words := []string{"permit", "deny", "in", "out", "ip", "from", "to", "any", "assigned", "1.2.3.4", "6", "80", "1-2", "10.0.0.0/8", "::", "\x00", "%s"}
		n := r.Intn(12)
		var t []string
		for i := 0; i < n; i++ {
			t = append(t, words[r.Intn(len(words))])
		}
		return strings.Join(t, " ")
	}
}
