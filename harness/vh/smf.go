package vh

import (
	"fmt"
	"net"
	"os"
	"strings"
	"sync"
	"sync/atomic"
	"syscall"
	"time"
)

// ---- simulated SMF ----
//
// Two modes. Synchronous (default): the harness pumps the sockets at defined
// points with non-blocking reads, so a sequential history is deterministic.
// Asynchronous (StartReaders): one reader goroutine per socket, used by the
// concurrent workloads.

type Datagram struct {
	T    int64
	From *net.UDPAddr
	Sock int // index of the receiving socket within the SMF
	B    []byte
	M    *PMsg
}

// ReportAction tells the SMF how to answer a Session Report Request.
type ReportAction struct {
	Ignore bool
	SEID   uint64 // header SEID of the response
	Twice  bool
	Via    *SMF // answer from another node's main socket
	BadSeq bool // answer with a different sequence number
}

type SMF struct {
	Idx   int
	IP    net.IP
	Socks []*net.UDPConn // [0] is IP:8805
	upf   *net.UDPAddr
	seq   uint32

	mu       sync.Mutex
	inbox    []*Datagram // non-report datagrams not yet consumed
	Reports  []*Datagram // every Session Report Request received (incl. retransmissions)
	OnReport func(d *Datagram) ReportAction
	async    bool
	wake     chan struct{}
	wg       sync.WaitGroup
	closed   int32
}

// NewSMF binds 127.B.1.idx:8805 (+ extra sockets on ephemeral ports).
func NewSMF(idx int, upf *net.UDPAddr, extraSocks int) (*SMF, error) {
	s := &SMF{Idx: idx, IP: IP(1, idx), upf: upf, seq: uint32(idx) << 16, wake: make(chan struct{}, 1)}
	for i := 0; i <= extraSocks; i++ {
		port := 8805
		if i > 0 {
			port = 0
		}
		var c *net.UDPConn
		var err error
		for try := 0; try < 200; try++ {
			c, err = net.ListenUDP("udp4", &net.UDPAddr{IP: s.IP, Port: port})
			if err == nil {
				break
			}
			time.Sleep(5 * time.Millisecond)
		}
		if err != nil {
			s.Close()
			return nil, err
		}
		c.SetReadBuffer(8 << 20)
		s.Socks = append(s.Socks, c)
	}
	return s, nil
}

func (s *SMF) Addr(sock int) *net.UDPAddr { return s.Socks[sock].LocalAddr().(*net.UDPAddr) }

// StartReaders switches the SMF to asynchronous mode.
func (s *SMF) StartReaders() {
	s.async = true
	for i, c := range s.Socks {
		s.wg.Add(1)
		go func(i int, c *net.UDPConn) {
			defer s.wg.Done()
			buf := make([]byte, 65536)
			for {
				n, from, err := c.ReadFromUDP(buf)
				if err != nil {
					return
				}
				s.accept(i, from, buf[:n])
			}
		}(i, c)
	}
}

func (s *SMF) accept(sock int, from *net.UDPAddr, b []byte) {
	d := &Datagram{T: Tick(), From: from, Sock: sock, B: append([]byte{}, b...)}
	d.M, _ = ParseMsg(d.B)
	isRep := d.M != nil && d.M.Type == MRepReq
	s.mu.Lock()
	if isRep {
		s.Reports = append(s.Reports, d)
	} else {
		s.inbox = append(s.inbox, d)
	}
	on := s.OnReport
	s.mu.Unlock()
	if isRep && on != nil {
		a := on(d)
		if !a.Ignore {
			seid := a.SEID
			seq := d.M.Seq
			if a.BadSeq {
				seq = (seq + 0x1234) & 0xffffff
			}
			b := BuildMsg(MRepRsp, &seid, seq, Cause(CauseAccepted))
			out := s.Socks[sock]
			if a.Via != nil {
				out = a.Via.Socks[0]
			}
			out.WriteToUDP(b, s.upf)
			if a.Twice {
				out.WriteToUDP(b, s.upf)
			}
		}
	}
	select {
	case s.wake <- struct{}{}:
	default:
	}
}

// Pump reads everything currently queued on the SMF's sockets without
// blocking (synchronous mode) and returns the number of datagrams read.
func (s *SMF) Pump() int {
	if s.async {
		return 0
	}
	total := 0
	buf := make([]byte, 65536)
	for i, c := range s.Socks {
		rc, err := c.SyscallConn()
		if err != nil {
			continue
		}
		for {
			var n int
			var from syscall.Sockaddr
			var rerr error
			rc.Read(func(fd uintptr) bool {
				n, from, rerr = syscall.Recvfrom(int(fd), buf, syscall.MSG_DONTWAIT)
				return true
			})
			if rerr != nil || n < 0 {
				break
			}
			var ua *net.UDPAddr
			if sa, ok := from.(*syscall.SockaddrInet4); ok {
				ua = &net.UDPAddr{IP: net.IPv4(sa.Addr[0], sa.Addr[1], sa.Addr[2], sa.Addr[3]).To4(), Port: sa.Port}
			}
			s.accept(i, ua, buf[:n])
			total++
		}
	}
	return total
}

func (s *SMF) NextSeq() uint32 {
	s.seq++
	return s.seq & 0xffffff
}

func (s *SMF) SendFrom(sock int, b []byte) {
	s.Socks[sock].WriteToUDP(b, s.upf)
}

// Take removes and returns all consumed-not-yet datagrams (responses etc.).
func (s *SMF) Take() []*Datagram {
	s.Pump()
	s.mu.Lock()
	out := s.inbox
	s.inbox = nil
	s.mu.Unlock()
	return out
}

// WaitRsp waits until a response with the given sequence number arrived on
// socket sock (any socket if sock<0); returns it and removes it from the inbox.
func (s *SMF) WaitRsp(seq uint32, timeout time.Duration) *Datagram {
	deadline := time.Now().Add(timeout)
	spin := 0
	for {
		s.Pump()
		s.mu.Lock()
		for i, d := range s.inbox {
			if d.M != nil && d.M.Seq == seq && d.M.Type != MRepReq {
				s.inbox = append(s.inbox[:i], s.inbox[i+1:]...)
				s.mu.Unlock()
				return d
			}
		}
		s.mu.Unlock()
		if time.Now().After(deadline) {
			return nil
		}
		if s.async {
			select {
			case <-s.wake:
			case <-time.After(2 * time.Millisecond):
			}
		} else {
			spin++
			if spin > 50 {
				time.Sleep(50 * time.Microsecond)
			}
		}
	}
}

func (s *SMF) ReportsSnapshot() []*Datagram {
	s.Pump()
	s.mu.Lock()
	defer s.mu.Unlock()
	return append([]*Datagram{}, s.Reports...)
}

func (s *SMF) SetOnReport(f func(d *Datagram) ReportAction) {
	s.mu.Lock()
	s.OnReport = f
	s.mu.Unlock()
}

// Drops reads the per-socket drop counter of the SMF's sockets from /proc/net/udp.
func (s *SMF) Drops() int {
	data, err := os.ReadFile("/proc/net/udp")
	if err != nil {
		return 0
	}
	total := 0
	for _, c := range s.Socks {
		la := c.LocalAddr().(*net.UDPAddr)
		ip := la.IP.To4()
		key := fmt.Sprintf("%02X%02X%02X%02X:%04X", ip[3], ip[2], ip[1], ip[0], la.Port)
		for _, line := range strings.Split(string(data), "\n") {
			f := strings.Fields(line)
			if len(f) >= 13 && f[1] == key {
				var d int
				fmt.Sscanf(f[len(f)-1], "%d", &d)
				total += d
			}
		}
	}
	return total
}

func (s *SMF) Close() {
	if !atomic.CompareAndSwapInt32(&s.closed, 0, 1) {
		return
	}
	for _, c := range s.Socks {
		c.Close()
	}
	s.wg.Wait()
}
