package vh

import (
	"encoding/binary"
	"fmt"
)

// GTPU is the result of the independent GTPv1-U decoder (TS 29.281 §5.1/§5.2,
// PDU Session Container per TS 38.415 §5.5.2).
type GTPU struct {
	Version  uint8
	PT       uint8
	Spare    uint8
	E, S, PN bool
	Type     uint8
	Length   uint16
	TEID     uint32
	Seq      uint16
	NPDU     uint8
	Exts     []GTPUExt
	Payload  []byte
}

type GTPUExt struct {
	Type    uint8
	Units   uint8
	Content []byte
}

// PDUSession returns (pdu type, qfi, raw second octet) of a PDU session
// container extension.
func (e GTPUExt) PDUSession() (uint8, uint8, uint8) {
	if len(e.Content) < 2 {
		return 0xff, 0xff, 0
	}
	return e.Content[0] >> 4, e.Content[1] & 0x3f, e.Content[1]
}

// DecodeGTPU decodes one GTP-U datagram strictly: every length must fit and
// the length field must equal the number of octets after the 8-octet header.
func DecodeGTPU(b []byte) (*GTPU, error) {
	if len(b) < 8 {
		return nil, fmt.Errorf("short header: %d octets", len(b))
	}
	g := &GTPU{
		Version: b[0] >> 5, PT: (b[0] >> 4) & 1, Spare: (b[0] >> 3) & 1,
		E: b[0]&4 != 0, S: b[0]&2 != 0, PN: b[0]&1 != 0,
		Type: b[1], Length: binary.BigEndian.Uint16(b[2:4]), TEID: binary.BigEndian.Uint32(b[4:8]),
	}
	if int(g.Length) != len(b)-8 {
		return g, fmt.Errorf("length field %d but %d octets follow the mandatory header", g.Length, len(b)-8)
	}
	pos := 8
	if g.E || g.S || g.PN {
		if len(b) < 12 {
			return g, fmt.Errorf("optional fields truncated")
		}
		g.Seq = binary.BigEndian.Uint16(b[8:10])
		g.NPDU = b[10]
		next := b[11]
		pos = 12
		if !g.E && next != 0 {
			return g, fmt.Errorf("next extension type %#x with E=0", next)
		}
		for next != 0 {
			if pos >= len(b) {
				return g, fmt.Errorf("extension header %#x truncated", next)
			}
			units := b[pos]
			if units == 0 {
				return g, fmt.Errorf("extension header %#x with length 0", next)
			}
			end := pos + int(units)*4
			if end > len(b) {
				return g, fmt.Errorf("extension header %#x length %d units exceeds datagram", next, units)
			}
			g.Exts = append(g.Exts, GTPUExt{Type: next, Units: units, Content: append([]byte{}, b[pos+1:end-1]...)})
			next = b[end-1]
			pos = end
		}
	}
	g.Payload = append([]byte{}, b[pos:]...)
	return g, nil
}
