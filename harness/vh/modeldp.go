package vh

import (
	"fmt"
	"sort"
	"syscall"
	"time"

	"github.com/wmnsk/go-pfcp/ie"

	"github.com/free5gc/go-upf/internal/forwarder"
	"github.com/free5gc/go-upf/internal/report"
)

// RuleKey identifies a rule in the (model or simulated) data plane.
type RuleKey struct {
	Kind string // PDR FAR QER URR BAR
	SEID uint64
	ID   uint64
}

func (k RuleKey) String() string { return fmt.Sprintf("%s[%#x:%d]", k.Kind, k.SEID, k.ID) }

// DPCall is one forwarder.Driver call as seen by the tap.
type DPCall struct {
	Idx     int    `json:"idx"`
	Tag     int    `json:"step"` // index of the history step being processed
	Op      string `json:"op"`   // Create Update Remove Query
	Kind    string `json:"kind"`
	SEID    uint64 `json:"seid"`
	ID      uint64 `json:"id"`
	IDOK    bool   `json:"id_ok"`
	Err     string `json:"err,omitempty"`
	Fault   string `json:"fault,omitempty"`
	Reports int    `json:"reports,omitempty"`
	FIdx    int    `json:"fidx"` // index among faultable calls (-1 for removes)
	RIdx    int    `json:"ridx"` // index among remove calls (-1 for the others)
}

// Tap is the driver object handed to the PFCP server. It logs every call,
// injects faults by position and forwards to the inner driver. It is only ever
// called from the event-loop goroutine and deliberately contains no
// synchronisation (so it adds no happens-before edges in race builds); the
// harness reads it at quiescent points only.
type Tap struct {
	Inner  forwarder.Driver
	Calls  []DPCall
	Tag    int
	Faults map[int]string // faultable-call index -> "na" (fail, not applied) | "ap" (fail, applied)
	nFault int
	// RemFaults: remove-call index -> "na": the data plane refuses the removal (the rule stays installed)
	RemFaults map[int]string
	nRem      int
	// KernelRefuse, when set (real driver over the simulated kernel), makes the kernel refuse the removal instead of
	// short-cutting the driver call: the driver runs as it would against a refusing gtp5g (what it does before the
	// netlink request - e.g. unregistering a periodic URR - still happens)
	KernelRefuse func(kind string, on bool)
	Delay        func(c *DPCall) // optional latency inside the call (a real suspension point)
	Quiet        bool            // do not keep the call log (stress runs)
	NCalls       int64
}

var ErrInjected = fmt.Errorf("injected data-plane failure")

func (t *Tap) Close()                        { t.Inner.Close() }
func (t *Tap) HandleReport(h report.Handler) { t.Inner.HandleReport(h) }

func (t *Tap) do(op, kind string, seid uint64, id uint64, idok bool, faultable bool, call func() (int, error)) error {
	c := DPCall{Idx: len(t.Calls), Tag: t.Tag, Op: op, Kind: kind, SEID: seid, ID: id, IDOK: idok, FIdx: -1, RIdx: -1}
	t.NCalls++
	var err error
	var n int
	mode := ""
	if faultable {
		c.FIdx = t.nFault
		if t.Faults != nil {
			mode = t.Faults[t.nFault]
		}
		t.nFault++
	} else if op == "Remove" {
		c.RIdx = t.nRem
		if t.RemFaults != nil && t.RemFaults[t.nRem] == "na" {
			mode = "na"
		}
		t.nRem++
	}
	if t.Delay != nil {
		t.Delay(&c)
	}
	viaKernel := false
	if mode == "na" && op == "Remove" && t.KernelRefuse != nil {
		viaKernel = true
		t.KernelRefuse(kind, true)
		n, err = call()
		t.KernelRefuse(kind, false)
		if err == nil {
			mode = "" // nothing was refused (the driver did not get as far as the kernel)
		}
	}
	switch {
	case viaKernel:
	case mode == "na":
		err = ErrInjected
	case mode == "ap":
		n, _ = call()
		n = 0
		err = ErrInjected
	default:
		n, err = call()
	}
	c.Fault = mode
	c.Reports = n
	if err != nil {
		c.Err = err.Error()
	}
	if !t.Quiet {
		t.Calls = append(t.Calls, c)
	}
	return err
}

func id16(v uint16, err error) (uint64, bool) { return uint64(v), err == nil }
func id32(v uint32, err error) (uint64, bool) { return uint64(v), err == nil }
func id8(v uint8, err error) (uint64, bool)   { return uint64(v), err == nil }

func (t *Tap) CreatePDR(s uint64, i *ie.IE) error {
	id, ok := id16(i.PDRID())
	return t.do("Create", "PDR", s, id, ok, true, func() (int, error) { return 0, t.Inner.CreatePDR(s, i) })
}
func (t *Tap) UpdatePDR(s uint64, i *ie.IE) error {
	id, ok := id16(i.PDRID())
	return t.do("Update", "PDR", s, id, ok, true, func() (int, error) { return 0, t.Inner.UpdatePDR(s, i) })
}
func (t *Tap) RemovePDR(s uint64, i *ie.IE) error {
	id, ok := id16(i.PDRID())
	return t.do("Remove", "PDR", s, id, ok, false, func() (int, error) { return 0, t.Inner.RemovePDR(s, i) })
}
func (t *Tap) CreateFAR(s uint64, i *ie.IE) error {
	id, ok := id32(i.FARID())
	return t.do("Create", "FAR", s, id, ok, true, func() (int, error) { return 0, t.Inner.CreateFAR(s, i) })
}
func (t *Tap) UpdateFAR(s uint64, i *ie.IE) error {
	id, ok := id32(i.FARID())
	return t.do("Update", "FAR", s, id, ok, true, func() (int, error) { return 0, t.Inner.UpdateFAR(s, i) })
}
func (t *Tap) RemoveFAR(s uint64, i *ie.IE) error {
	id, ok := id32(i.FARID())
	return t.do("Remove", "FAR", s, id, ok, false, func() (int, error) { return 0, t.Inner.RemoveFAR(s, i) })
}
func (t *Tap) CreateQER(s uint64, i *ie.IE) error {
	id, ok := id32(i.QERID())
	return t.do("Create", "QER", s, id, ok, true, func() (int, error) { return 0, t.Inner.CreateQER(s, i) })
}
func (t *Tap) UpdateQER(s uint64, i *ie.IE) error {
	id, ok := id32(i.QERID())
	return t.do("Update", "QER", s, id, ok, true, func() (int, error) { return 0, t.Inner.UpdateQER(s, i) })
}
func (t *Tap) RemoveQER(s uint64, i *ie.IE) error {
	id, ok := id32(i.QERID())
	return t.do("Remove", "QER", s, id, ok, false, func() (int, error) { return 0, t.Inner.RemoveQER(s, i) })
}
func (t *Tap) CreateURR(s uint64, i *ie.IE) error {
	id, ok := id32(i.URRID())
	return t.do("Create", "URR", s, id, ok, true, func() (int, error) { return 0, t.Inner.CreateURR(s, i) })
}
func (t *Tap) UpdateURR(s uint64, i *ie.IE) ([]report.USAReport, error) {
	id, ok := id32(i.URRID())
	var rs []report.USAReport
	err := t.do("Update", "URR", s, id, ok, true, func() (int, error) {
		var e error
		rs, e = t.Inner.UpdateURR(s, i)
		return len(rs), e
	})
	if err != nil {
		return nil, err
	}
	return rs, nil
}
func (t *Tap) RemoveURR(s uint64, i *ie.IE) ([]report.USAReport, error) {
	id, ok := id32(i.URRID())
	var rs []report.USAReport
	err := t.do("Remove", "URR", s, id, ok, false, func() (int, error) {
		var e error
		rs, e = t.Inner.RemoveURR(s, i)
		return len(rs), e
	})
	if err != nil {
		return nil, err
	}
	return rs, nil
}
func (t *Tap) QueryURR(s uint64, id uint32) ([]report.USAReport, error) {
	var rs []report.USAReport
	err := t.do("Query", "URR", s, uint64(id), true, true, func() (int, error) {
		var e error
		rs, e = t.Inner.QueryURR(s, id)
		return len(rs), e
	})
	if err != nil {
		return nil, err
	}
	return rs, nil
}
func (t *Tap) CreateBAR(s uint64, i *ie.IE) error {
	id, ok := id8(i.BARID())
	return t.do("Create", "BAR", s, id, ok, true, func() (int, error) { return 0, t.Inner.CreateBAR(s, i) })
}
func (t *Tap) UpdateBAR(s uint64, i *ie.IE) error {
	id, ok := id8(i.BARID())
	return t.do("Update", "BAR", s, id, ok, true, func() (int, error) { return 0, t.Inner.UpdateBAR(s, i) })
}
func (t *Tap) RemoveBAR(s uint64, i *ie.IE) error {
	id, ok := id8(i.BARID())
	return t.do("Remove", "BAR", s, id, ok, false, func() (int, error) { return 0, t.Inner.RemoveBAR(s, i) })
}

// ---- model data plane ----

// DPRule is a rule installed in the model data plane.
type DPRule struct {
	Gen   int // installation serial (distinguishes incarnations)
	Upd   int // number of successful updates
	Bytes []byte
}

// ModelDP is a forwarder.Driver with gtp5g-like semantics at rule-id
// granularity: create of an existing rule fails (EEXIST) and changes nothing;
// update/remove/query of a missing rule fail (ENOENT); removing or querying a
// URR yields one uniquely valued report.
type ModelDP struct {
	Rules    map[RuleKey]*DPRule
	gen      int
	Serial   uint64 // report serial: unique counters identify the report
	Issued   map[uint64]RuleKey
	UpdRep   bool // UpdateURR returns a report
	NoRemRep bool // RemoveURR succeeds without a final report (like forwarder.Empty)
	handler  report.Handler
}

func NewModelDP() *ModelDP {
	return &ModelDP{Rules: map[RuleKey]*DPRule{}, Issued: map[uint64]RuleKey{}}
}

func (m *ModelDP) Close()                        {}
func (m *ModelDP) HandleReport(h report.Handler) { m.handler = h }

func (m *ModelDP) create(k RuleKey, ok bool, i *ie.IE) error {
	if !ok {
		return fmt.Errorf("model dp: no rule id")
	}
	if _, ex := m.Rules[k]; ex {
		return syscall.EEXIST
	}
	m.gen++
	m.Rules[k] = &DPRule{Gen: m.gen}
	return nil
}
func (m *ModelDP) update(k RuleKey, ok bool, i *ie.IE) error {
	if !ok {
		return fmt.Errorf("model dp: no rule id")
	}
	r, ex := m.Rules[k]
	if !ex {
		return syscall.ENOENT
	}
	r.Upd++
	return nil
}
func (m *ModelDP) remove(k RuleKey, ok bool) error {
	if !ok {
		return fmt.Errorf("model dp: no rule id")
	}
	if _, ex := m.Rules[k]; !ex {
		return syscall.ENOENT
	}
	delete(m.Rules, k)
	return nil
}

// NewReport fabricates a uniquely valued usage report for a URR.
func (m *ModelDP) NewReport(k RuleKey) report.USAReport {
	m.Serial++
	s := m.Serial
	m.Issued[s] = k
	return UniqueUSAR(uint32(k.ID), s)
}

// UniqueUSAR builds a usage report whose every field is a function of serial.
func UniqueUSAR(urrid uint32, s uint64) report.USAReport {
	return report.USAReport{
		URRID: urrid,
		VolumMeasure: report.VolumeMeasure{
			TotalVolume: s*1000 + 1, UplinkVolume: s*1000 + 2, DownlinkVolume: s*1000 + 3,
			TotalPktNum: s*1000 + 4, UplinkPktNum: s*1000 + 5, DownlinkPktNum: s*1000 + 6,
		},
		StartTime: time.Unix(1_600_000_000+int64(s)*10, 0),
		EndTime:   time.Unix(1_600_000_000+int64(s)*10+5, 0),
	}
}

func (m *ModelDP) CreatePDR(s uint64, i *ie.IE) error {
	id, ok := id16(i.PDRID())
	return m.create(RuleKey{"PDR", s, id}, ok, i)
}
func (m *ModelDP) UpdatePDR(s uint64, i *ie.IE) error {
	id, ok := id16(i.PDRID())
	return m.update(RuleKey{"PDR", s, id}, ok, i)
}
func (m *ModelDP) RemovePDR(s uint64, i *ie.IE) error {
	id, ok := id16(i.PDRID())
	return m.remove(RuleKey{"PDR", s, id}, ok)
}
func (m *ModelDP) CreateFAR(s uint64, i *ie.IE) error {
	id, ok := id32(i.FARID())
	return m.create(RuleKey{"FAR", s, id}, ok, i)
}
func (m *ModelDP) UpdateFAR(s uint64, i *ie.IE) error {
	id, ok := id32(i.FARID())
	return m.update(RuleKey{"FAR", s, id}, ok, i)
}
func (m *ModelDP) RemoveFAR(s uint64, i *ie.IE) error {
	id, ok := id32(i.FARID())
	return m.remove(RuleKey{"FAR", s, id}, ok)
}
func (m *ModelDP) CreateQER(s uint64, i *ie.IE) error {
	id, ok := id32(i.QERID())
	return m.create(RuleKey{"QER", s, id}, ok, i)
}
func (m *ModelDP) UpdateQER(s uint64, i *ie.IE) error {
	id, ok := id32(i.QERID())
	return m.update(RuleKey{"QER", s, id}, ok, i)
}
func (m *ModelDP) RemoveQER(s uint64, i *ie.IE) error {
	id, ok := id32(i.QERID())
	return m.remove(RuleKey{"QER", s, id}, ok)
}
func (m *ModelDP) CreateURR(s uint64, i *ie.IE) error {
	id, ok := id32(i.URRID())
	return m.create(RuleKey{"URR", s, id}, ok, i)
}
func (m *ModelDP) UpdateURR(s uint64, i *ie.IE) ([]report.USAReport, error) {
	id, ok := id32(i.URRID())
	k := RuleKey{"URR", s, id}
	if err := m.update(k, ok, i); err != nil {
		return nil, err
	}
	if m.UpdRep {
		return []report.USAReport{m.NewReport(k)}, nil
	}
	return nil, nil
}
func (m *ModelDP) RemoveURR(s uint64, i *ie.IE) ([]report.USAReport, error) {
	id, ok := id32(i.URRID())
	k := RuleKey{"URR", s, id}
	if err := m.remove(k, ok); err != nil {
		return nil, err
	}
	if m.NoRemRep {
		return nil, nil
	}
	return []report.USAReport{m.NewReport(k)}, nil
}
func (m *ModelDP) QueryURR(s uint64, id uint32) ([]report.USAReport, error) {
	k := RuleKey{"URR", s, uint64(id)}
	if _, ex := m.Rules[k]; !ex {
		return nil, syscall.ENOENT
	}
	return []report.USAReport{m.NewReport(k)}, nil
}
func (m *ModelDP) CreateBAR(s uint64, i *ie.IE) error {
	id, ok := id8(i.BARID())
	return m.create(RuleKey{"BAR", s, id}, ok, i)
}
func (m *ModelDP) UpdateBAR(s uint64, i *ie.IE) error {
	id, ok := id8(i.BARID())
	return m.update(RuleKey{"BAR", s, id}, ok, i)
}
func (m *ModelDP) RemoveBAR(s uint64, i *ie.IE) error {
	id, ok := id8(i.BARID())
	return m.remove(RuleKey{"BAR", s, id}, ok)
}

// Table returns a copy rule -> installation serial.
func (m *ModelDP) Table() map[RuleKey]int {
	out := make(map[RuleKey]int, len(m.Rules))
	for k, r := range m.Rules {
		out[k] = r.Gen*1000 + r.Upd
	}
	return out
}

func SortedKeys(t map[RuleKey]int) []RuleKey {
	ks := make([]RuleKey, 0, len(t))
	for k := range t {
		ks = append(ks, k)
	}
	sort.Slice(ks, func(i, j int) bool {
		a, b := ks[i], ks[j]
		if a.SEID != b.SEID {
			return a.SEID < b.SEID
		}
		if a.Kind != b.Kind {
			return a.Kind < b.Kind
		}
		return a.ID < b.ID
	})
	return ks
}
