package vh

import (
	"encoding/binary"
)

// Structure-aware mutation of PFCP datagrams.

type ieLoc struct {
	off, hdr, end int // offset of the IE header, of its payload, end of payload
	depth         int
}

// locateIEs walks the IE area of a datagram and lists every IE at any nesting
// level whose lengths are consistent.
func locateIEs(b []byte, start, end, depth int, out *[]ieLoc) {
	off := start
	for off+4 <= end {
		t := binary.BigEndian.Uint16(b[off:])
		l := int(binary.BigEndian.Uint16(b[off+2:]))
		if off+4+l > end {
			return
		}
		*out = append(*out, ieLoc{off, off + 4, off + 4 + l, depth})
		if groupedTypes[t] && depth < 4 {
			locateIEs(b, off+4, off+4+l, depth+1, out)
		}
		off += 4 + l
	}
}

func ieStart(b []byte) int {
	if len(b) < 8 {
		return len(b)
	}
	if b[0]&1 != 0 {
		return 16
	}
	return 8
}

var boundary64 = []uint64{0, 1, 2, 0x7f, 0xff, 0x100, 0xffff, 0x10000, 0x7fffffff, 0x80000000, 0xffffffff, 1 << 32,
	1<<63 - 1, 1 << 63, 1<<63 + 1, ^uint64(0) - 1, ^uint64(0)}

// fixLens recomputes the message length field and the lengths of enclosing
// IEs after a size change at position pos (delta bytes), so that a single
// structural fault is delivered inside an otherwise consistent message.
func fixLens(b []byte, locs []ieLoc, pos, delta int) {
	for _, l := range locs {
		if l.off < pos && pos <= l.end && l.hdr <= pos {
			// enclosing IE (strictly contains pos)
			nl := int(binary.BigEndian.Uint16(b[l.off+2:])) + delta
			if nl >= 0 && nl <= 0xffff {
				binary.BigEndian.PutUint16(b[l.off+2:], uint16(nl))
			}
		}
	}
	if len(b) >= 4 {
		binary.BigEndian.PutUint16(b[2:4], uint16(len(b)-4))
	}
}

// len16 picks a wrong value for a 16-bit length field whose correct value is
// actual: small values, values around the correct one, and values near the top
// and the middle of the 16-bit range (where additions of header sizes wrap).
func len16(r *Rng, actual int) uint16 {
	switch r.Intn(6) {
	case 0:
		return uint16(r.Intn(21))
	case 1:
		return uint16(actual - 6 + r.Intn(13))
	case 2, 3:
		return uint16(0xffff - r.Intn(24))
	case 4:
		return uint16(0x7ff0 + r.Intn(0x20))
	}
	return uint16(r.Intn(0x10000))
}

// Mutate returns a hostile variant of a valid PFCP datagram and a short
// description of what was done.
func Mutate(r *Rng, valid []byte) ([]byte, string) {
	b := append([]byte{}, valid...)
	if len(b) < 8 {
		// too short for structural mutation: octet-level only
		if len(b) > 0 {
			b[r.Intn(len(b))] = byte(r.U64())
		}
		return b, "octet of a short datagram randomised"
	}
	var locs []ieLoc
	locateIEs(b, ieStart(b), len(b), 0, &locs)
	pick := func() (ieLoc, bool) {
		if len(locs) == 0 {
			return ieLoc{}, false
		}
		return locs[r.Intn(len(locs))], true
	}
	switch r.Intn(22) {
	case 0:
		return nil, "zero-length datagram"
	case 1:
		return b[:1+r.Intn(3)], "1-3 byte datagram"
	case 2:
		n := r.Intn(len(b))
		return b[:n], "truncated datagram"
	case 3:
		n := r.Intn(len(b))
		c := b[:n]
		if len(c) >= 4 {
			c = append([]byte{}, c...)
			binary.BigEndian.PutUint16(c[2:4], uint16(len(c)-4))
		}
		return c, "truncated datagram with consistent message length"
	case 4:
		b[0] = byte(r.U64())
		return b, "header flags/version octet randomised"
	case 5:
		b[0] ^= 1
		return b, "S flag flipped"
	case 6:
		b[1] = byte(r.U64())
		return b, "message type randomised"
	case 7:
		binary.BigEndian.PutUint16(b[2:4], len16(r, len(b)-4))
		return b, "message length field set to a wrong value"
	case 8:
		if b[0]&1 != 0 && len(b) >= 12 {
			binary.BigEndian.PutUint64(b[4:12], boundary64[r.Intn(len(boundary64))])
			return b, "header SEID set to a boundary value"
		}
		return b, "unchanged"
	case 9, 10:
		l, ok := pick()
		if !ok {
			return b, "unchanged"
		}
		binary.BigEndian.PutUint16(b[l.off+2:], len16(r, l.end-l.hdr))
		return b, "IE length field set to a wrong value"
	case 11:
		l, ok := pick()
		if !ok {
			return b, "unchanged"
		}
		binary.BigEndian.PutUint16(b[l.off:], []uint16{0, 0x7fff, 0x8000, 0xffff, uint16(r.Intn(300)), uint16(r.Intn(65536))}[r.Intn(6)])
		return b, "IE type replaced"
	case 12:
		l, ok := pick()
		if !ok || l.end == l.hdr {
			return b, "unchanged"
		}
		for k := 0; k < 1+r.Intn(4); k++ {
			b[l.hdr+r.Intn(l.end-l.hdr)] = byte(r.U64())
		}
		return b, "IE payload octets randomised"
	case 13:
		// shorten an IE's payload (lengths of the IE and everything around it kept consistent)
		l, ok := pick()
		if !ok || l.end == l.hdr {
			return b, "unchanged"
		}
		cut := 1 + r.Intn(l.end-l.hdr)
		nb := append(append([]byte{}, b[:l.end-cut]...), b[l.end:]...)
		binary.BigEndian.PutUint16(nb[l.off+2:], uint16(l.end-l.hdr-cut))
		fixLens(nb, locs, l.off, -cut)
		return nb, "IE payload shortened, all lengths consistent"
	case 14:
		// delete an IE
		l, ok := pick()
		if !ok {
			return b, "unchanged"
		}
		n := l.end - l.off
		nb := append(append([]byte{}, b[:l.off]...), b[l.end:]...)
		fixLens(nb, locs, l.off, -n)
		return nb, "IE deleted, all lengths consistent"
	case 15:
		// duplicate an IE
		l, ok := pick()
		if !ok {
			return b, "unchanged"
		}
		n := l.end - l.off
		nb := append(append(append([]byte{}, b[:l.end]...), b[l.off:l.end]...), b[l.end:]...)
		fixLens(nb, locs, l.off, n)
		return nb, "IE duplicated, all lengths consistent"
	case 16:
		// set a 1/2/4/8-octet IE value to a boundary
		var small []ieLoc
		for _, l := range locs {
			n := l.end - l.hdr
			if n == 1 || n == 2 || n == 4 || n == 8 || n == 3 {
				small = append(small, l)
			}
		}
		if len(small) == 0 {
			return b, "unchanged"
		}
		l := small[r.Intn(len(small))]
		v := boundary64[r.Intn(len(boundary64))]
		for i := l.end - 1; i >= l.hdr; i-- {
			b[i] = byte(v)
			v >>= 8
		}
		return b, "scalar IE set to a boundary value"
	case 17:
		// extend an IE's payload with random octets
		l, ok := pick()
		if !ok {
			return b, "unchanged"
		}
		add := r.Bytes(1 + r.Intn(8))
		nb := append(append(append([]byte{}, b[:l.end]...), add...), b[l.end:]...)
		binary.BigEndian.PutUint16(nb[l.off+2:], uint16(l.end-l.hdr+len(add)))
		fixLens(nb, locs, l.off, len(add))
		return nb, "IE payload extended, all lengths consistent"
	case 18:
		// trailing garbage after the last IE
		nb := append(b, r.Bytes(1+r.Intn(6))...)
		if r.Bool() {
			binary.BigEndian.PutUint16(nb[2:4], uint16(len(nb)-4))
		}
		return nb, "trailing octets appended"
	case 19:
		// flip one random bit anywhere
		i := r.Intn(len(b))
		b[i] ^= 1 << uint(r.Intn(8))
		return b, "one bit flipped"
	case 20:
		// first payload octet (usually the flags octet) of a random IE
		l, ok := pick()
		if !ok || l.end == l.hdr {
			return b, "unchanged"
		}
		b[l.hdr] = byte(r.U64())
		return b, "IE flags octet randomised"
	default:
		// sequence number
		off := 4
		if b[0]&1 != 0 {
			off = 12
		}
		if len(b) >= off+3 {
			v := []uint32{0, 1, 0xffffff, r.U32()}[r.Intn(4)]
			b[off], b[off+1], b[off+2] = byte(v>>16), byte(v>>8), byte(v)
		}
		return b, "sequence number changed"
	}
}
