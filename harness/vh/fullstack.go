package vh

import (
	"encoding/binary"
	"fmt"
	"net"
	"sync"
	"syscall"
	"time"

	"github.com/khirono/go-nl"
)

// FullStack is the real PFCP server on the real gtp5g driver on the simulated
// kernel, with simulated SMFs and gNBs around it.
type FullStack struct {
	WG   *sync.WaitGroup
	D    *SimDriver
	Tap  *Tap
	Env  *Env
	SMFs []*SMF
	GNBs []*GNB
}

type FullOpts struct {
	SMFs       int
	GNBs       int
	ExtraSock  int
	MaxRetrans uint8
	Retrans    time.Duration
	Kernel     *Kernel
	Quiet      bool
}

func StartFull(o FullOpts) (*FullStack, error) {
	fs := &FullStack{WG: &sync.WaitGroup{}}
	d, err := NewSimDriver(SimDriverOpts{WG: fs.WG, Kernel: o.Kernel})
	if err != nil {
		return nil, err
	}
	fs.D = d
	fs.Tap = &Tap{Inner: d.G, Quiet: o.Quiet}
	TakeFatals()
	env, err := StartEnv(fs.Tap, EnvOpts{MaxRetrans: o.MaxRetrans, RetransTimeout: o.Retrans, WG: fs.WG})
	if err != nil {
		d.Close()
		return nil, err
	}
	fs.Env = env
	d.HandleReport(env.Srv) // wrap the handler so that sentinel reports are intercepted
	for n := 0; n < o.SMFs; n++ {
		s, err := NewSMF(n+2, env.UPF, o.ExtraSock)
		if err != nil {
			fs.Stop()
			return nil, err
		}
		fs.SMFs = append(fs.SMFs, s)
	}
	for n := 0; n < o.GNBs; n++ {
		g, err := NewGNB(n + 1)
		if err != nil {
			fs.Stop()
			return nil, err
		}
		fs.GNBs = append(fs.GNBs, g)
	}
	return fs, nil
}

// Stop stops server and driver the way the application does and joins everything.
func (fs *FullStack) Stop() error {
	for _, s := range fs.SMFs {
		s.Close()
	}
	for _, g := range fs.GNBs {
		g.Close()
	}
	if fs.Env != nil {
		if fs.Env.probe != nil {
			fs.Env.probe.Close()
		}
		fs.Env.Srv.Stop()
	}
	fs.D.G.Close()
	done := make(chan struct{})
	go func() { fs.WG.Wait(); close(done) }()
	var err error
	select {
	case <-done:
	case <-time.After(15 * time.Second):
		err = ErrWatchdog
	}
	fs.D.K.CloseAll()
	return err
}

// Multicast hands a kernel multicast message to the buffering listener, the
// role nl.Mux.Serve plays in production.
func (fs *FullStack) Multicast(body []byte) {
	fs.D.G.VerifBuff().ServeMsg(&nl.Msg{Body: body})
}

// Quiesce: perio server idle, multicast hand-over drained, then event loop idle.
func (fs *FullStack) Quiesce() error {
	if !fs.D.PerioBarrier() {
		return ErrWatchdog
	}
	if !fs.D.McastBarrier() {
		return ErrWatchdog
	}
	return fs.Env.Barrier()
}

// Request sends a request from an SMF socket and returns the response (nil if none).
func (fs *FullStack) Request(smf *SMF, sock int, msg []byte, seq uint32, expect bool) (*Datagram, error) {
	smf.SendFrom(sock, msg)
	if err := fs.Env.Barrier(); err != nil {
		return nil, err
	}
	d := smf.WaitRsp(seq, 0)
	if d == nil && expect {
		d = smf.WaitRsp(seq, 3*time.Second)
	}
	return d, nil
}

// Associate performs an association setup for the SMF (node id = its IP).
func (fs *FullStack) Associate(smf *SMF) error {
	seq := smf.NextSeq()
	d, err := fs.Request(smf, 0, BuildMsg(MAssocReq, nil, seq, NodeIDv4(smf.IP), RecoveryTS(1)), seq, true)
	if err != nil {
		return err
	}
	if d == nil || d.M == nil || d.M.CauseVal() != CauseAccepted {
		return fmt.Errorf("association not accepted")
	}
	return nil
}

// Establish creates a session; returns the UP SEID.
func (fs *FullStack) Establish(smf *SMF, cp uint64, rules []Rule) (uint64, *Datagram, error) {
	seq := smf.NextSeq()
	ies := []*IE{NodeIDv4(smf.IP), FSEIDv4(cp, smf.IP)}
	for _, r := range rules {
		ies = append(ies, r.CreateIE())
	}
	zero := uint64(0)
	d, err := fs.Request(smf, 0, BuildMsg(MEstReq, &zero, seq, ies...), seq, true)
	if err != nil {
		return 0, nil, err
	}
	if d == nil || d.M == nil || d.M.CauseVal() != CauseAccepted || d.M.Find(TFSEID) == nil {
		return 0, d, fmt.Errorf("establishment not accepted")
	}
	return binary.BigEndian.Uint64(d.M.Find(TFSEID).V[1:9]), d, nil
}

// ---- simulated gNB ----

type GPkt struct {
	T    int64
	From *net.UDPAddr
	B    []byte
	G    *GTPU
	Err  error
}

type GNB struct {
	IP   net.IP
	Conn *net.UDPConn
	mu   sync.Mutex
	pkts []*GPkt
}

func NewGNB(idx int) (*GNB, error) {
	g := &GNB{IP: IP(2, idx)}
	var err error
	for try := 0; try < 200; try++ {
		g.Conn, err = net.ListenUDP("udp4", &net.UDPAddr{IP: g.IP, Port: 2152})
		if err == nil {
			break
		}
		time.Sleep(5 * time.Millisecond)
	}
	if err != nil {
		return nil, err
	}
	g.Conn.SetReadBuffer(8 << 20)
	return g, nil
}

// Take reads everything queued on the socket (non-blocking) and returns it.
func (g *GNB) Take() []*GPkt {
	buf := make([]byte, 65536)
	rc, err := g.Conn.SyscallConn()
	if err != nil {
		return nil
	}
	var out []*GPkt
	for {
		var n int
		var from syscall.Sockaddr
		var rerr error
		rc.Read(func(fd uintptr) bool {
			n, from, rerr = syscall.Recvfrom(int(fd), buf, syscall.MSG_DONTWAIT)
			return true
		})
		if rerr != nil || n < 0 {
			break
		}
		var ua *net.UDPAddr
		if sa, ok := from.(*syscall.SockaddrInet4); ok {
			ua = &net.UDPAddr{IP: net.IPv4(sa.Addr[0], sa.Addr[1], sa.Addr[2], sa.Addr[3]).To4(), Port: sa.Port}
		}
		p := &GPkt{T: Tick(), From: ua, B: append([]byte{}, buf[:n]...)}
		p.G, p.Err = DecodeGTPU(p.B)
		out = append(out, p)
	}
	return out
}

func (g *GNB) Close() { g.Conn.Close() }
