package vh

import (
	"fmt"
	"net"
	"strconv"
	"strings"
)

// Reference translation PFCP IE -> gtp5g netlink attributes (DESIGN.md
// Appendix A). Written from TS 29.244 §7.5 / §8.2 and the gtp5g attribute
// tables, independently of internal/forwarder/gtp5g.go.

const SimIfIndex = 7

// RefFlow is the filter an IPFilterRule string denotes.
type RefFlow struct {
	Action   uint8 // 1 permit
	Dir      uint8 // 1 in, 2 out
	Proto    uint8 // 255 = ip
	SrcIP    [4]byte
	SrcMask  [4]byte
	DstIP    [4]byte
	DstMask  [4]byte
	SrcPorts [][2]uint16
	DstPorts [][2]uint16
}

func (f RefFlow) String() string {
	return fmt.Sprintf("act=%d dir=%d proto=%d src=%v/%v%v dst=%v/%v%v", f.Action, f.Dir, f.Proto,
		net.IP(f.SrcIP[:]), net.IP(f.SrcMask[:]), f.SrcPorts, net.IP(f.DstIP[:]), net.IP(f.DstMask[:]), f.DstPorts)
}

func refAddr(tok string) (ip, mask [4]byte, ok bool) {
	if tok == "any" || tok == "assigned" {
		return ip, mask, true
	}
	host := tok
	plen := 32
	if i := strings.IndexByte(tok, '/'); i >= 0 {
		host = tok[:i]
		n, err := strconv.Atoi(tok[i+1:])
		if err != nil || n < 0 || n > 32 || tok[i+1:] == "" || strings.TrimLeft(tok[i+1:], "0123456789") != "" {
			return ip, mask, false
		}
		plen = n
	}
	parts := strings.Split(host, ".")
	if len(parts) != 4 {
		return ip, mask, false
	}
	for i, p := range parts {
		if p == "" || len(p) > 3 || strings.TrimLeft(p, "0123456789") != "" || (len(p) > 1 && p[0] == '0') {
			return ip, mask, false
		}
		n, _ := strconv.Atoi(p)
		if n > 255 {
			return ip, mask, false
		}
		ip[i] = byte(n)
	}
	m := uint32(0)
	if plen > 0 {
		m = ^uint32(0) << (32 - uint(plen))
	}
	mask = [4]byte{byte(m >> 24), byte(m >> 16), byte(m >> 8), byte(m)}
	for i := range ip {
		ip[i] &= mask[i]
	}
	return ip, mask, true
}

func refPorts(tok string) ([][2]uint16, bool) {
	var out [][2]uint16
	for _, item := range strings.Split(tok, ",") {
		lo, hi := item, item
		if i := strings.IndexByte(item, '-'); i >= 0 {
			lo, hi = item[:i], item[i+1:]
		}
		a, err1 := strconv.ParseUint(lo, 10, 16)
		b, err2 := strconv.ParseUint(hi, 10, 16)
		if err1 != nil || err2 != nil || strings.TrimLeft(lo+hi, "0123456789") != "" {
			return nil, false
		}
		out = append(out, [2]uint16{uint16(a), uint16(b)})
	}
	return out, true
}

// RefParseFlow parses a flow description of the supported grammar
// 'permit in|out <proto|ip> from <addr> [ports] to <addr> [ports]'.
func RefParseFlow(s string) (RefFlow, bool) {
	var f RefFlow
	tok := strings.Fields(s)
	if len(tok) < 7 || tok[0] != "permit" {
		return f, false
	}
	f.Action = 1
	switch tok[1] {
	case "in":
		f.Dir = 1
	case "out":
		f.Dir = 2
	default:
		return f, false
	}
	if tok[2] == "ip" {
		f.Proto = 255
	} else {
		n, err := strconv.ParseUint(tok[2], 10, 8)
		if err != nil || strings.TrimLeft(tok[2], "0123456789") != "" {
			return f, false
		}
		f.Proto = uint8(n)
	}
	if tok[3] != "from" {
		return f, false
	}
	var ok bool
	f.SrcIP, f.SrcMask, ok = refAddr(tok[4])
	if !ok {
		return f, false
	}
	pos := 5
	if tok[pos] != "to" {
		f.SrcPorts, ok = refPorts(tok[pos])
		if !ok {
			return f, false
		}
		pos++
	}
	if pos >= len(tok) || tok[pos] != "to" {
		return f, false
	}
	pos++
	if pos >= len(tok) {
		return f, false
	}
	f.DstIP, f.DstMask, ok = refAddr(tok[pos])
	if !ok {
		return f, false
	}
	pos++
	if pos < len(tok) {
		f.DstPorts, ok = refPorts(tok[pos])
		if !ok {
			return f, false
		}
		pos++
	}
	if pos != len(tok) {
		return f, false
	}
	return f, true
}

func (f RefFlow) Swapped() RefFlow {
	g := f
	g.SrcIP, g.DstIP = f.DstIP, f.SrcIP
	g.SrcMask, g.DstMask = f.DstMask, f.SrcMask
	g.SrcPorts, g.DstPorts = f.DstPorts, f.SrcPorts
	return g
}

func portsAttr(t uint16, ps [][2]uint16) *NLA {
	b := make([]byte, 4*len(ps))
	for i, p := range ps {
		ne.PutUint32(b[4*i:], uint32(p[0])<<16|uint32(p[1]))
	}
	return AB(t, b)
}

func (f RefFlow) NLA() *NLA {
	return AN(KSdfFD, A8(KFdAction, f.Action), A8(KFdDir, f.Dir), A8(KFdProto, f.Proto),
		AB(KFdSrcIP, f.SrcIP[:]), AB(KFdSrcMask, f.SrcMask[:]), AB(KFdDstIP, f.DstIP[:]), AB(KFdDstMask, f.DstMask[:]),
		portsAttr(KFdSrcPort, f.SrcPorts), portsAttr(KFdDstPort, f.DstPorts))
}

// FlowFromNLA decodes the packed form (independent of gtp5gnl.DecodeFlowDesc).
func FlowFromNLA(a *NLA) (RefFlow, error) {
	var f RefFlow
	get4 := func(x *NLA) ([4]byte, error) {
		var o [4]byte
		if x == nil || len(x.Data) < 4 {
			return o, fmt.Errorf("address attribute missing or shorter than 4 octets")
		}
		copy(o[:], x.Data[:4])
		return o, nil
	}
	var err error
	if x := FindNLA(a.Kids, KFdAction); x != nil && len(x.Data) > 0 {
		f.Action = x.Data[0]
	}
	if x := FindNLA(a.Kids, KFdDir); x != nil && len(x.Data) > 0 {
		f.Dir = x.Data[0]
	}
	if x := FindNLA(a.Kids, KFdProto); x != nil && len(x.Data) > 0 {
		f.Proto = x.Data[0]
	}
	if f.SrcIP, err = get4(FindNLA(a.Kids, KFdSrcIP)); err != nil {
		return f, err
	}
	if f.SrcMask, err = get4(FindNLA(a.Kids, KFdSrcMask)); err != nil {
		return f, err
	}
	if f.DstIP, err = get4(FindNLA(a.Kids, KFdDstIP)); err != nil {
		return f, err
	}
	if f.DstMask, err = get4(FindNLA(a.Kids, KFdDstMask)); err != nil {
		return f, err
	}
	ports := func(x *NLA) [][2]uint16 {
		var out [][2]uint16
		if x == nil {
			return nil
		}
		for i := 0; i+4 <= len(x.Data); i += 4 {
			v := ne.Uint32(x.Data[i:])
			out = append(out, [2]uint16{uint16(v >> 16), uint16(v)})
		}
		return out
	}
	f.SrcPorts = ports(FindNLA(a.Kids, KFdSrcPort))
	f.DstPorts = ports(FindNLA(a.Kids, KFdDstPort))
	return f, nil
}

func be32v(b []byte) uint32 {
	var v uint32
	for _, x := range b {
		v = v<<8 | uint32(x)
	}
	return v
}

// ExpectAdd returns the attribute tree the ADD_<kind> request for the given
// Create/Update IE must carry (top level, including LINK, id and SEID).
func ExpectAdd(kind string, seid uint64, g *IE, create bool) ([]*NLA, error) {
	out := []*NLA{A32(KLink, SimIfIndex)}
	switch kind {
	case "PDR":
		id := g.Find(TPDRID)
		if id == nil {
			return nil, fmt.Errorf("no PDR ID")
		}
		out = append(out, A16(KPdrID, uint16(id.Uint())), A64(KPdrSEID, seid))
		for _, c := range g.C {
			switch c.T {
			case TPrecedence:
				out = append(out, A32(KPdrPrecedence, uint32(c.Uint())))
			case TOHR:
				out = append(out, A8(KPdrOHR, c.V[0]))
			case TFARID:
				out = append(out, A32(KPdrFarID, uint32(c.Uint())))
			case TQERID:
				out = append(out, A32(KPdrQerID, uint32(c.Uint())))
			case TURRID:
				out = append(out, A32(KPdrUrrID, uint32(c.Uint())))
			case TPDI:
				pdi := AN(KPdrPDI)
				uplink := false
				if si := c.Find(TSrcIntf); si != nil {
					uplink = si.V[0]&0x0f == 0
				}
				for _, x := range c.C {
					switch x.T {
					case TSrcIntf:
						pdi.Kids = append(pdi.Kids, A8(KPdiSrcIntf, x.V[0]&0x0f))
					case TFTEID:
						pdi.Kids = append(pdi.Kids, AN(KPdiFTEID, A32(KFteidTEID, be32v(x.V[1:5])), AB(KFteidAddr, x.V[5:9])))
					case TUEIP:
						pdi.Kids = append(pdi.Kids, AB(KPdiUEAddr, x.V[1:5]))
					case TSDFFilter:
						sdf := AN(KPdiSDF)
						flags := x.V[0]
						p := x.V[2:]
						if flags&0x01 != 0 {
							l := int(p[0])<<8 | int(p[1])
							f, ok := RefParseFlow(string(p[2 : 2+l]))
							p = p[2+l:]
							if !ok {
								return nil, fmt.Errorf("reference parser rejects flow description")
							}
							if uplink {
								f = f.Swapped()
							}
							sdf.Kids = append(sdf.Kids, f.NLA())
						}
						if flags&0x10 != 0 {
							sdf.Kids = append(sdf.Kids, A32(KSdfBID, be32v(p[:4])))
						}
						pdi.Kids = append(pdi.Kids, sdf)
					}
				}
				if len(pdi.Kids) > 0 {
					out = append(out, pdi)
				}
			}
		}
		if create {
			out = append(out, AS(KPdrUnixPath, "/"))
		}
	case "FAR":
		id := g.Find(TFARID)
		if id == nil {
			return nil, fmt.Errorf("no FAR ID")
		}
		out = append(out, A32(KFarID, uint32(id.Uint())), A64(KFarSEID, seid))
		for _, c := range g.C {
			switch c.T {
			case TApplyAction:
				v := uint16(c.V[0])
				if len(c.V) > 1 {
					v |= uint16(c.V[1]) << 8
				}
				out = append(out, A16(KFarAction, v))
			case TBARID:
				out = append(out, A8(KFarBarID, c.V[0]))
			case TFwdParams, TUpdFwdParam:
				fp := AN(KFarFwd)
				for _, x := range c.C {
					switch x.T {
					case TOHC:
						desc := uint16(x.V[0])<<8 | uint16(x.V[1])
						hc := AN(KFwdOHC, A16(KOhcDesc, desc))
						p := x.V[2:]
						hi := x.V[0]
						if hi&0x03 != 0 {
							hc.Kids = append(hc.Kids, A32(KOhcTEID, be32v(p[:4])), A16(KOhcPort, 2152))
							p = p[4:]
						}
						if hi&(0x01|0x04|0x10) != 0 {
							hc.Kids = append(hc.Kids, AB(KOhcPeer, p[:4]))
							p = p[4:]
						}
						if hi&0x03 == 0 {
							port := uint16(0)
							if hi&(0x04|0x08) != 0 && len(p) >= 2 {
								port = uint16(p[0])<<8 | uint16(p[1])
							}
							hc.Kids = append(hc.Kids, A16(KOhcPort, port))
						}
						fp.Kids = append(fp.Kids, hc)
					case TFwdPolicy:
						l := int(x.V[0])
						fp.Kids = append(fp.Kids, AS(KFwdPolicy, string(x.V[1:1+l])))
					case TSMReqFlags:
						fp.Kids = append(fp.Kids, A8(KFwdSMFlags, x.V[0]))
					}
				}
				if len(fp.Kids) > 0 {
					out = append(out, fp)
				}
			}
		}
	case "QER":
		id := g.Find(TQERID)
		if id == nil {
			return nil, fmt.Errorf("no QER ID")
		}
		out = append(out, A32(KQerID, uint32(id.Uint())), A64(KQerSEID, seid))
		for _, c := range g.C {
			switch c.T {
			case TQERCorr:
				out = append(out, A32(KQerCorr, uint32(c.Uint())))
			case TGate:
				out = append(out, A8(KQerGate, c.V[0]))
			case TMBR, TGBR:
				var ul, dl uint64
				for i := 0; i < 5; i++ {
					ul = ul<<8 | uint64(c.V[i])
					dl = dl<<8 | uint64(c.V[5+i])
				}
				t := uint16(KQerMBR)
				if c.T == TGBR {
					t = KQerGBR
				}
				out = append(out, AN(t, A32(1, uint32(ul>>8)), A8(2, uint8(ul)), A32(3, uint32(dl>>8)), A8(4, uint8(dl))))
			case TQFI:
				out = append(out, A8(KQerQFI, c.V[0]&0x3f))
			case TRQI:
				out = append(out, A8(KQerRQI, c.V[0]&0x01))
			case TPPI:
				out = append(out, A8(KQerPPI, c.V[0]&0x07))
			}
		}
	case "URR":
		id := g.Find(TURRID)
		if id == nil {
			return nil, fmt.Errorf("no URR ID")
		}
		out = append(out, A32(KUrrID, uint32(id.Uint())), A64(KUrrSEID, seid))
		for _, c := range g.C {
			switch c.T {
			case TMeasMethod:
				out = append(out, A8(KUrrMethod, c.V[0]))
			case TRepTrig:
				var v uint32
				for i, b := range c.V {
					if i < 3 {
						v |= uint32(b) << (8 * uint(i))
					}
				}
				out = append(out, A32(KUrrTrigger, v))
			case TMeasPeriod:
				out = append(out, &NLA{Type: KUrrPeriod}) // presence only; value not compared
			case TMeasInfo:
				out = append(out, A64(KUrrInfo, uint64(c.V[0])))
			case TVolThresh, TVolQuota:
				t := uint16(KUrrVolTh)
				if c.T == TVolQuota {
					t = KUrrVolQu
				}
				n := AN(t, A8(1, c.V[0]))
				p := c.V[1:]
				for b := 0; b < 3; b++ {
					if c.V[0]&(1<<uint(b)) != 0 {
						var v uint64
						for _, x := range p[:8] {
							v = v<<8 | uint64(x)
						}
						p = p[8:]
						n.Kids = append(n.Kids, A64(uint16(2+b), v))
					}
				}
				out = append(out, n)
			}
		}
	case "BAR":
		id := g.Find(TBARID)
		if id == nil {
			return nil, fmt.Errorf("no BAR ID")
		}
		out = append(out, A8(KBarID, id.V[0]), A64(KBarSEID, seid))
		for _, c := range g.C {
			switch c.T {
			case TDDNDelay:
				out = append(out, A8(KBarDelay, c.V[0]))
			case TSuggBufCnt:
				out = append(out, A16(KBarCount, uint16(c.V[0])))
			}
		}
	}
	return out, nil
}

// NormObserved rewrites the observed request attributes into the comparison
// form: fields whose width the interface does not fix are widened, the
// measurement period value is blanked, flow-description addresses are cut to
// their IPv4 part.
func NormObserved(kind string, as []*NLA) []*NLA {
	var out []*NLA
	for _, a := range as {
		b := *a
		switch {
		case kind == "URR" && a.Type == KUrrPeriod:
			b = NLA{Type: KUrrPeriod}
		case kind == "URR" && a.Type == KUrrInfo:
			b = *A64(KUrrInfo, a.U64())
		case kind == "PDR" && a.Type == KPdrPDI:
			b = NLA{Type: a.Type, Nested: true}
			for _, x := range a.Kids {
				if x.Type != KPdiSDF {
					b.Kids = append(b.Kids, x)
					continue
				}
				sdf := AN(KPdiSDF)
				for _, y := range x.Kids {
					if y.Type != KSdfFD {
						sdf.Kids = append(sdf.Kids, y)
						continue
					}
					fd := AN(KSdfFD)
					for _, z := range y.Kids {
						c := *z
						if z.Type >= KFdSrcIP && z.Type <= KFdDstMask && len(z.Data) > 4 {
							// "any" is sent as a 16-octet all-zero address; only an all-zero tail is equivalent
							zero := true
							for _, t := range z.Data[4:] {
								if t != 0 {
									zero = false
								}
							}
							if zero {
								c.Data = append([]byte{}, z.Data[:4]...)
							}
						}
						fd.Kids = append(fd.Kids, &c)
					}
					sdf.Kids = append(sdf.Kids, fd)
				}
				b.Kids = append(b.Kids, sdf)
			}
		}
		out = append(out, &b)
	}
	return out
}
