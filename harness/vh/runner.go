package vh

import (
	"fmt"
	"os"
	"time"

	"github.com/free5gc/go-upf/internal/forwarder"
	"github.com/free5gc/go-upf/internal/pfcp"
	"github.com/free5gc/go-upf/internal/report"
)

// Step is what the monitors recorded for one history operation.
type Step struct {
	I        int
	Op       *Op
	Seq      uint32
	From     string // source address of the request
	Req      []byte
	Sent     bool // false: the op could not be issued (e.g. target session never established)
	Rsp      *Datagram
	Extra    []*Datagram // other datagrams that arrived at any SMF socket during the step (not report requests)
	ExtraAt  []int       // SMF index each extra arrived at
	Reports  []*Datagram // Session Report Requests that arrived during the step
	RepAt    []int       // SMF index each report arrived at
	Calls    []DPCall
	Pre      *pfcp.VerifSnap
	Post     *pfcp.VerifSnap
	DPPre    map[RuleKey]int
	DPPost   map[RuleKey]int
	UP       uint64 // header SEID used (mod/del/urep)
	Injected []report.USAReport
	Retrans  int // txto: byte-identical copies of earlier Session Report Requests that arrived (retransmissions)
	Err      string
	Drops    int
}

type Trace struct {
	H          *History
	Steps      []*Step
	Faults     map[int]string
	UPFIP      string
	Probe      string
	NCalls     int // faultable calls seen
	Fatal      []string
	Abort      string // barrier / watchdog failure: the rest of the history was not executed
	SMFIPs     []string
	SMFAddrs   [][]string
	RealDriver bool // the history ran on the real gtp5g driver over the simulated kernel
	NoRemRep   bool // the data plane returned no final report on removals (C12's report expectations do not apply)
}

var Timing = os.Getenv("VERIF_TIMING") != ""

// Runner executes histories against a fresh PFCP server each.
type Runner struct {
	MaxRetrans uint8
	// NoRemoveReport: the model data plane removes URRs without handing back a final
	// report (what forwarder.Empty does); the session then keeps the URR's record.
	NoRemoveReport bool
	// Driver returns the driver for a run; nil means a fresh ModelDP.
	NewDriver func() *DriverKit
	ExtraSock bool
}

// RemBase: fault-plan keys from RemBase on address remove calls (key-RemBase = index among the remove calls);
// the only mode for them is "na" (the data plane refuses the removal, the rule stays installed).
const RemBase = 1 << 20

// DriverKit is what a non-model data plane brings to a run.
type DriverKit struct {
	Driver  forwarder.Driver
	Table   func() map[RuleKey]int
	Cleanup func()
	Attach  func(report.Handler)       // re-installs the report handler after the server exists (barrier wrapper); may be nil
	Refuse  func(kind string, on bool) // makes the (simulated) kernel refuse removals of that rule kind; may be nil
	Tick    func(time.Duration) bool   // injects one tick of a period into the real periodic server and waits for it; may be nil
}

// Run executes one history with the given fault plan.
func (rn *Runner) Run(h *History, faults map[int]string) *Trace {
	tr := &Trace{H: h, Faults: faults, NoRemRep: rn.NoRemoveReport}
	var remFaults map[int]string
	for k, m := range faults {
		if k >= RemBase {
			if remFaults == nil {
				remFaults = map[int]string{}
			}
			remFaults[k-RemBase] = m
		}
	}
	var inner forwarder.Driver
	var table func() map[RuleKey]int
	var cleanup func()
	var mdp *ModelDP
	var kit *DriverKit
	if rn.NewDriver != nil {
		kit = rn.NewDriver()
		inner, table, cleanup = kit.Driver, kit.Table, kit.Cleanup
	} else {
		mdp = NewModelDP()
		mdp.NoRemRep = rn.NoRemoveReport
		inner, table = mdp, mdp.Table
	}
	tap := &Tap{Inner: inner, Faults: faults, RemFaults: remFaults}
	if kit != nil {
		tap.KernelRefuse = kit.Refuse
	}
	TakeFatals()
	t0 := time.Now()
	env, err := StartEnv(tap, EnvOpts{MaxRetrans: rn.MaxRetrans})
	if Timing {
		fmt.Fprintf(os.Stderr, "start %v\n", time.Since(t0))
		defer func() { fmt.Fprintf(os.Stderr, "total %v steps %d\n", time.Since(t0), len(tr.Steps)) }()
	}
	if err != nil {
		tr.Abort = "start: " + err.Error()
		return tr
	}
	if kit != nil && kit.Attach != nil {
		kit.Attach(env.Srv)
	}
	tr.RealDriver = kit != nil
	tr.UPFIP = env.UPFIP.String()
	tr.Probe = env.ProbeAddr()
	extra := 0
	if rn.ExtraSock {
		extra = 1
	}
	var smfs []*SMF
	defer func() {
		for _, s := range smfs {
			s.Close()
		}
		if err := env.Stop(); err != nil && tr.Abort == "" {
			tr.Abort = "stop: " + err.Error()
		}
		if cleanup != nil {
			cleanup()
		}
		tr.Fatal = append(tr.Fatal, TakeFatals()...)
	}()
	// node index 7 is the "unknown node" (never associated); nodes 0..Nodes-1 get sockets
	for n := 0; n < h.Nodes+h.Extra; n++ {
		s, err := NewSMF(n+2, env.UPF, extra)
		if err != nil {
			tr.Abort = "smf: " + err.Error()
			return tr
		}
		smfs = append(smfs, s)
		tr.SMFIPs = append(tr.SMFIPs, s.IP.String())
		var as []string
		for i := range s.Socks {
			as = append(as, s.Addr(i).String())
		}
		tr.SMFAddrs = append(tr.SMFAddrs, as)
	}
	nodeIP := func(n int) *IE {
		if n >= 0 && n < len(smfs) {
			return NodeIDv4(smfs[n].IP)
		}
		return NodeIDv4(IP(1, 100+n))
	}
	up := map[int]uint64{} // session handle -> UP SEID learned from the establishment response
	cp := map[int]uint64{}
	var answer string
	var answerUP uint64
	for _, s := range smfs {
		s := s
		s.SetOnReport(func(d *Datagram) ReportAction {
			switch answer {
			case "ignore":
				return ReportAction{Ignore: true}
			case "seid0":
				return ReportAction{SEID: 0}
			}
			return ReportAction{SEID: answerUP}
		})
	}
	collect := func(st *Step) {
		for si, s := range smfs {
			for _, d := range s.Take() {
				st.Extra = append(st.Extra, d)
				st.ExtraAt = append(st.ExtraAt, si)
			}
		}
	}
	repSeen := make([]int, len(smfs))
	repBytes := map[string]bool{}
	collectReports := func(st *Step) {
		for si, s := range smfs {
			rs := s.ReportsSnapshot()
			for _, d := range rs[repSeen[si]:] {
				if st.Op.K == "txto" && repBytes[string(d.B)] {
					st.Retrans++ // a retransmission: the same request again, not a new report
					continue
				}
				repBytes[string(d.B)] = true
				st.Reports = append(st.Reports, d)
				st.RepAt = append(st.RepAt, si)
			}
			repSeen[si] = len(rs)
		}
	}
	for i := range h.Ops {
		op := &h.Ops[i]
		st := &Step{I: i, Op: op}
		tr.Steps = append(tr.Steps, st)
		tap.Tag = i
		ncall := len(tap.Calls)
		st.Pre = env.Srv.VerifSnapshot()
		st.DPPre = table()
		sock := op.Sock
		if op.Node >= len(smfs) {
			continue
		}
		smf := smfs[op.Node]
		if sock >= len(smf.Socks) {
			sock = 0
		}
		st.From = smf.Addr(sock).String()
		var seid uint64
		if op.Sess >= 0 {
			seid = up[op.Sess]
		} else {
			seid = op.Raw
		}
		st.UP = seid
		var msg []byte
		seq := smf.NextSeq()
		st.Seq = seq
		switch op.K {
		case "dup":
			if op.Ref < len(tr.Steps)-1 && tr.Steps[op.Ref].Sent && tr.Steps[op.Ref].Req != nil {
				msg = tr.Steps[op.Ref].Req
				seq = tr.Steps[op.Ref].Seq
				st.Seq = seq
				st.UP = tr.Steps[op.Ref].UP
			}
		case "hb":
			msg = BuildMsg(MHeartbeatReq, nil, seq, RecoveryTS(0x11223344))
		case "assoc":
			var ies []*IE
			if op.NodeID >= 0 {
				ies = append(ies, nodeIP(op.NodeID))
			}
			ies = append(ies, RecoveryTS(0x11223344))
			msg = BuildMsg(MAssocReq, nil, seq, ies...)
		case "est":
			var ies []*IE
			if op.NodeID >= 0 {
				ies = append(ies, nodeIP(op.NodeID))
			}
			if !op.NoFSEID {
				ies = append(ies, FSEIDv4(op.CP, smf.IP))
			}
			for _, r := range op.Create {
				ies = append(ies, r.CreateIE())
			}
			zero := uint64(0)
			msg = BuildMsg(MEstReq, &zero, seq, ies...)
			cp[op.Sess] = op.CP
		case "mod":
			if op.Sess >= 0 && seid == 0 {
				// the session was never established: address SEID 0 instead
			}
			var ies []*IE
			if op.Takeover > 0 {
				// a take-over renames the association the addressed session hangs on. Which of that association's
				// other sessions move with it is not fixed by the statement, so the Node ID IE is only sent when the
				// association owns nothing else - judged on the server's state now (stale handles and faults make
				// the generator's own book-keeping unreliable here)
				owned := 0
				own := false
				if seid >= 1 && int(seid) <= len(st.Pre.Slots) && st.Pre.Slots[seid-1] != nil {
					nid := st.Pre.Slots[seid-1].NodeID
					if k := op.Takeover - 1; k < len(smfs) && smfs[k].IP.String() == nid {
						own = true // the IE repeats the node id the association already has: nothing to move
					}
					for _, x := range st.Pre.Slots {
						if x != nil && x.NodeID == nid {
							owned++
						}
					}
				}
				// ... nor when the named node id already has an association of its own (take-over onto an associated
				// node id: whose sessions the two associations then hold is not fixed either)
				onto := false
				if k := op.Takeover - 1; !own {
					nid := ""
					if k < len(smfs) {
						nid = smfs[k].IP.String()
					} else {
						nid = IP(1, 100+k).String()
					}
					for _, n := range st.Pre.Nodes {
						if n.ID == nid {
							onto = true
						}
					}
				}
				if (owned > 1 || onto) && !own {
					cp := *op
					cp.Takeover = 0
					op = &cp
					st.Op = op
				}
			}
			if op.Takeover > 0 {
				ies = append(ies, nodeIP(op.Takeover-1))
			}
			for _, r := range op.Create {
				ies = append(ies, r.CreateIE())
			}
			for _, r := range op.Remove {
				ies = append(ies, r.RemoveIE())
			}
			for _, r := range op.Update {
				ies = append(ies, r.UpdateIE())
			}
			for _, q := range op.Query {
				ies = append(ies, Grp(TQueryURR, URRID(q)))
			}
			msg = BuildMsg(MModReq, &seid, seq, ies...)
		case "del":
			msg = BuildMsg(MDelReq, &seid, seq)
		case "dldr":
			answer = op.Answer
			answerUP = seid
			pl := make([]byte, op.PayLen)
			for k := range pl {
				pl[k] = byte(i + k)
			}
			env.Srv.NotifySessReport(report.SessReport{SEID: seid, Reports: []report.Report{report.DLDReport{PDRID: op.PDR, Action: op.Act, BufPkt: pl}}})
			st.Sent = true
			if err := env.Barrier(); err != nil {
				st.Err = "barrier: " + err.Error()
			}
			for _, s := range smfs {
				s.Pump()
			}
			if st.Err == "" {
				if err := env.Barrier(); err != nil {
					st.Err = "barrier: " + err.Error()
				}
			}
		case "tick":
			// one tick of a measurement period in the real periodic server (real-driver runs only)
			if kit != nil && kit.Tick != nil {
				answer = "accept"
				answerUP = 1
				st.Sent = true
				if !kit.Tick(time.Duration(op.Period) * time.Second) {
					st.Err = "tick barrier timed out"
				}
				if st.Err == "" {
					if err := env.Barrier(); err != nil {
						st.Err = "barrier: " + err.Error()
					}
				}
				for _, s := range smfs {
					s.Pump()
				}
				if st.Err == "" {
					if err := env.Barrier(); err != nil {
						st.Err = "barrier: " + err.Error()
					}
				}
			}
		case "lateans":
			// the SMF answers an earlier, so far unanswered Session Report Request now
			if op.Ref < len(tr.Steps)-1 {
				rs := tr.Steps[op.Ref]
				if len(rs.Reports) > 0 && rs.Reports[0].M != nil {
					d := rs.Reports[0]
					hdr := uint64(0)
					if op.Answer != "seid0" {
						hdr = rs.UP
					}
					smfs[rs.RepAt[0]].SendFrom(d.Sock, BuildMsg(MRepRsp, &hdr, d.M.Seq, Cause(CauseAccepted)))
					st.Sent = true
					st.UP = rs.UP
					if err := env.Barrier(); err != nil {
						st.Err = "barrier: " + err.Error()
					}
				}
			}
		case "txto":
			// the retransmission timers of all outstanding Session Report Requests run out: every retry, then abandoned
			answer = "ignore"
			st.Sent = true
			for _, t := range env.Srv.VerifSnapshot().Tx {
				for k := 0; k <= int(rn.MaxRetrans) && st.Err == ""; k++ {
					env.Srv.NotifyTransTimeout(pfcp.TX, t.ID)
					if err := env.Barrier(); err != nil {
						st.Err = "barrier: " + err.Error()
					}
				}
			}
			for _, s := range smfs {
				s.Pump()
			}
		case "urep":
			answer = op.Answer
			answerUP = seid
			var reps []report.Report
			for _, u := range op.URRs {
				var r report.USAReport
				if mdp != nil {
					r = mdp.NewReport(RuleKey{"URR", seid, uint64(u)})
				} else {
					r = UniqueUSAR(u, uint64(1000000+i*10)+uint64(len(reps)))
				}
				r.USARTrigger.Flags = report.USAR_TRIG_VOLTH
				st.Injected = append(st.Injected, r)
				reps = append(reps, r)
			}
			env.Srv.NotifySessReport(report.SessReport{SEID: seid, Reports: reps})
			st.Sent = true
			if err := env.Barrier(); err != nil {
				st.Err = "barrier: " + err.Error()
			}
			// the SMF sees the request now and answers; then the UPF processes the answer
			for _, s := range smfs {
				s.Pump()
			}
			if st.Err == "" {
				if err := env.Barrier(); err != nil {
					st.Err = "barrier: " + err.Error()
				}
			}
		}
		if msg != nil {
			st.Req = msg
			st.Sent = true
			smf.SendFrom(sock, msg)
			if err := env.Barrier(); err != nil {
				st.Err = "barrier: " + err.Error()
			}
			st.Rsp = smf.WaitRsp(seq, 0)
			if st.Rsp == nil && st.Err == "" && expectRsp(op) {
				// loopback delivery is normally synchronous; give a late datagram time
				st.Rsp = smf.WaitRsp(seq, 3*time.Second)
			}
			if st.Rsp != nil && op.K == "est" && st.Rsp.M != nil && st.Rsp.M.CauseVal() == CauseAccepted {
				if f := st.Rsp.M.Find(TFSEID); f != nil && len(f.V) >= 9 {
					var v uint64
					for _, b := range f.V[1:9] {
						v = v<<8 | uint64(b)
					}
					up[op.Sess] = v
				}
			}
		}
		if Timing {
			fmt.Fprintf(os.Stderr, " step %d %s %v\n", i, op.K, time.Since(t0))
		}
		collect(st)
		collectReports(st)
		st.Calls = append([]DPCall{}, tap.Calls[ncall:]...)
		st.Post = env.Srv.VerifSnapshot()
		st.DPPost = table()
		if st.Rsp == nil && st.Sent && expectRsp(op) {
			for _, s := range smfs {
				st.Drops += s.Drops()
			}
		}
		if FatalCount() > 0 {
			tr.Abort = fmt.Sprintf("fatal at step %d", i)
			break
		}
		if st.Err != "" {
			tr.Abort = fmt.Sprintf("step %d: %s", i, st.Err)
			break
		}
	}
	tr.NCalls = tap.nFault
	return tr
}

// expectRsp: requests that are always answered, whatever the state.
func expectRsp(op *Op) bool {
	switch op.K {
	case "hb", "mod", "del":
		return true
	case "assoc":
		return op.NodeID >= 0
	}
	return false
}

// RemoveCalls lists the remove calls of a trace.
func (t *Trace) RemoveCalls() []DPCall {
	var out []DPCall
	for _, st := range t.Steps {
		for _, c := range st.Calls {
			if c.RIdx >= 0 {
				out = append(out, c)
			}
		}
	}
	return out
}

// FaultableCalls lists the (create/update/query) calls of a fault-free trace.
func (t *Trace) FaultableCalls() []DPCall {
	var out []DPCall
	for _, st := range t.Steps {
		for _, c := range st.Calls {
			if c.FIdx >= 0 {
				out = append(out, c)
			}
		}
	}
	return out
}
