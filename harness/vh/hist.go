package vh

import (
	"fmt"
	"net"
)

// ---- histories: the input language of the PFCP-level checks ----

// Rule describes one rule IE (create / update / remove) of a request.
type Rule struct {
	Kind string   `json:"kind"` // PDR FAR QER URR BAR
	ID   uint64   `json:"id"`
	URRs []uint32 `json:"urrs,omitempty"` // PDR: URR ID children (nil on update = no URR ID IE)
	QERs []uint32 `json:"qers,omitempty"`
	FAR  uint32   `json:"far,omitempty"`
	// PDR
	UEIP   bool `json:"ueip,omitempty"`
	Uplink bool `json:"uplink,omitempty"`
	NoURR  bool `json:"no_urr_ie,omitempty"` // update PDR without any URR ID IE
	IDLast bool `json:"id_last,omitempty"`   // Create/Update PDR: the PDR ID IE comes after all other children
	// FAR
	Action uint16 `json:"action,omitempty"`
	Peer   int    `json:"peer,omitempty"` // gNB index for outer header creation (0 = none)
	TEID   uint32 `json:"teid,omitempty"`
	BAR    int    `json:"bar,omitempty"` // -1 none
	// QER
	QFI uint8 `json:"qfi,omitempty"`
	// URR
	Method uint8  `json:"method,omitempty"` // bit0 DURAT bit1 VOLUM bit2 EVENT
	MNOP   bool   `json:"mnop,omitempty"`
	Trig   uint32 `json:"trig,omitempty"`
	Period uint32 `json:"period,omitempty"` // seconds
	// Update URR: leave the Measurement Method / Measurement Information IE out (= unchanged)
	NoMethod bool `json:"no_method_ie,omitempty"`
	NoInfo   bool `json:"no_info_ie,omitempty"`
}

// Op is one step of a history.
type Op struct {
	K        string   `json:"k"`              // hb assoc est mod del urep dldr
	Node     int      `json:"node"`           // sending SMF
	Sock     int      `json:"sock,omitempty"` // sending socket of that SMF
	NodeID   int      `json:"node_id"`        // node whose id goes into the Node ID IE (-1: omit IE)
	Sess     int      `json:"sess"`           // session handle (est: new handle; mod/del/urep: target); -1: use Raw
	Raw      uint64   `json:"raw,omitempty"`  // raw header SEID when Sess == -1
	CP       uint64   `json:"cp,omitempty"`   // est: CP-SEID
	NoFSEID  bool     `json:"no_fseid,omitempty"`
	Create   []Rule   `json:"create,omitempty"`
	Update   []Rule   `json:"update,omitempty"`
	Remove   []Rule   `json:"remove,omitempty"`
	Query    []uint32 `json:"query,omitempty"`
	Takeover int      `json:"takeover,omitempty"` // mod: node index whose id is put in a Node ID IE (0 = none; index+1)
	Ref      int      `json:"ref,omitempty"`      // dup: index of the step whose request is retransmitted
	// reports
	URRs   []uint32 `json:"rep_urrs,omitempty"`
	Answer string   `json:"answer,omitempty"` // accept seid0 ignore
	PDR    uint16   `json:"pdr,omitempty"`
	Period uint32   `json:"tick_period,omitempty"` // tick: the measurement period (seconds) whose ticker fires
	Act    uint16   `json:"act,omitempty"`
	PayLen int      `json:"paylen,omitempty"`
}

func (o Op) String() string { return J(o) }

type History struct {
	Nodes int  `json:"nodes"`
	Extra int  `json:"extra_nodes,omitempty"` // SMFs that are never associated themselves (take-over targets)
	Ops   []Op `json:"ops"`
}

// ---- IE builders for rules (valid for the model data plane and the real driver) ----

func gnbIP(i int) net.IP { return IP(2, i) }

func (r Rule) CreateIE() *IE {
	switch r.Kind {
	case "PDR":
		var c []*IE
		c = append(c, PDRID(uint16(r.ID)), Precedence(uint32(100+r.ID)))
		var pdi []*IE
		if r.Uplink {
			pdi = append(pdi, SrcIntf(0), FTEIDv4(uint32(0x1000+r.ID), IP(0, 1)))
		} else {
			pdi = append(pdi, SrcIntf(1))
		}
		if r.UEIP {
			pdi = append(pdi, UEIPv4(net.IPv4(10, 60, 0, byte(r.ID)), !r.Uplink))
		}
		c = append(c, Grp(TPDI, pdi...))
		if r.Uplink {
			c = append(c, OHR(0))
		}
		c = append(c, FARID(r.FAR))
		for _, q := range r.QERs {
			c = append(c, QERID(q))
		}
		for _, u := range r.URRs {
			c = append(c, URRID(u))
		}
		if r.IDLast {
			c = append(c[1:], c[0])
		}
		return Grp(TCreatePDR, c...)
	case "FAR":
		c := []*IE{FARID(uint32(r.ID)), ApplyAction(r.Action, r.Action > 0xff)}
		if r.Peer > 0 {
			c = append(c, Grp(TFwdParams, DstIntf(0), OHC(0x0100, r.TEID, gnbIP(r.Peer), 0)))
		}
		if r.BAR > 0 {
			c = append(c, BARID(uint8(r.BAR)))
		}
		return Grp(TCreateFAR, c...)
	case "QER":
		c := []*IE{QERID(uint32(r.ID)), Gate(0)}
		if r.QFI != 0 {
			c = append(c, QFI(r.QFI))
		}
		return Grp(TCreateQER, c...)
	case "URR":
		c := []*IE{URRID(uint32(r.ID)), MeasMethod(r.Method), RepTrig(r.Trig, 3)}
		if r.Period > 0 {
			c = append(c, MeasPeriod(r.Period))
		}
		if r.MNOP {
			c = append(c, MeasInfo(0x10))
		}
		if r.Trig&0x2 != 0 {
			c = append(c, VolThresh(1, 1000000, 0, 0))
		}
		return Grp(TCreateURR, c...)
	case "BAR":
		return Grp(TCreateBAR, BARID(uint8(r.ID)), DDNDelay(2), SuggBufCnt(10))
	}
	panic("bad rule kind " + r.Kind)
}

func (r Rule) UpdateIE() *IE {
	switch r.Kind {
	case "PDR":
		c := []*IE{PDRID(uint16(r.ID)), Precedence(uint32(200 + r.ID))}
		if r.FAR != 0 {
			c = append(c, FARID(r.FAR))
		}
		if !r.NoURR {
			for _, u := range r.URRs {
				c = append(c, URRID(u))
			}
		}
		if r.IDLast {
			c = append(c[1:], c[0])
		}
		return Grp(TUpdatePDR, c...)
	case "FAR":
		c := []*IE{FARID(uint32(r.ID)), ApplyAction(r.Action, r.Action > 0xff)}
		if r.Peer > 0 {
			c = append(c, Grp(TUpdFwdParam, DstIntf(0), OHC(0x0100, r.TEID, gnbIP(r.Peer), 0)))
		}
		return Grp(TUpdateFAR, c...)
	case "QER":
		c := []*IE{QERID(uint32(r.ID)), Gate(0)}
		if r.QFI != 0 {
			c = append(c, QFI(r.QFI))
		}
		return Grp(TUpdateQER, c...)
	case "URR":
		c := []*IE{URRID(uint32(r.ID))}
		if !r.NoMethod {
			c = append(c, MeasMethod(r.Method))
		}
		if r.Trig != 0 {
			c = append(c, RepTrig(r.Trig, 3))
		}
		if r.Period > 0 {
			c = append(c, MeasPeriod(r.Period))
		}
		mi := uint8(0)
		if r.MNOP {
			mi = 0x10
		}
		if !r.NoInfo {
			c = append(c, MeasInfo(mi))
		}
		if r.NoMethod && r.NoInfo {
			c = append(c, VolThresh(1, 4242, 0, 0)) // an update that only moves the threshold
		}
		return Grp(TUpdateURR, c...)
	case "BAR":
		return Grp(TUpdateBAR, BARID(uint8(r.ID)), DDNDelay(3))
	}
	panic("bad rule kind " + r.Kind)
}

func (r Rule) RemoveIE() *IE {
	switch r.Kind {
	case "PDR":
		return Grp(TRemovePDR, PDRID(uint16(r.ID)))
	case "FAR":
		return Grp(TRemoveFAR, FARID(uint32(r.ID)))
	case "QER":
		return Grp(TRemoveQER, QERID(uint32(r.ID)))
	case "URR":
		return Grp(TRemoveURR, URRID(uint32(r.ID)))
	case "BAR":
		return Grp(TRemoveBAR, BARID(uint8(r.ID)))
	}
	panic("bad rule kind " + r.Kind)
}

// ---- generator ----

// GenProfile steers the history generator.
type GenProfile struct {
	MinOps, MaxOps int
	MaxNodes       int
	MaxSess        int
	Negative       int // weight of negative-path operations (unknown SEIDs/nodes, missing IEs)
	Reports        int // weight of injected usage reports
	RuleChurn      int // weight of modifications
	Reassoc        int // weight of re-association
	SeidClasses    bool
	Takeover       bool
	NoDupCreate    bool // never create a rule id that is (per generator book-keeping) live
	OneSession     bool
	URRHeavy       bool
	ExtraSock      bool // use second sockets (same IP, other port)
	DLDR           bool
	Dups           int // weight of retransmitted requests
	// TxTimeouts: an unanswered Session Report Request is later followed by a "txto" step in which its
	// retransmission timer runs out (all retries, then abandoned)
	TxTimeouts bool
	// LateAnswers: an unanswered Session Report Request is answered later ("lateans" step, mostly with SEID 0) -
	// after other requests, after the deletion of the session it was about, or twice for two reports
	LateAnswers bool
	// Churn: now and then several sessions are deleted in a row, then as many established, then each new one is
	// modified (several SEIDs are free at once when the allocator is asked again)
	Churn bool
	// Ticks: periodic ticks ("tick" steps; they only act in runs on the real driver, where the real periodic server runs)
	Ticks bool
}

type genSess struct {
	h     int
	node  int
	cp    uint64
	alive bool
	taken bool
	rules map[string]map[uint64]bool
}

type gen struct {
	r     *Rng
	p     GenProfile
	h     *History
	sess  []*genSess
	assoc map[int]bool
	fresh int
}

func (g *gen) liveSessions() []*genSess {
	var out []*genSess
	for _, s := range g.sess {
		if s.alive {
			out = append(out, s)
		}
	}
	return out
}

func (g *gen) pickID(kind string) uint64 {
	switch kind {
	case "PDR":
		return uint64(g.r.Range(1, 3))
	case "FAR":
		return uint64(g.r.Range(1, 3))
	case "QER":
		return uint64(g.r.Range(1, 2))
	case "URR":
		return uint64(g.r.Range(1, 3))
	default:
		return 1
	}
}

var kinds = []string{"PDR", "FAR", "QER", "URR", "BAR"}

func (g *gen) rule(kind string, id uint64) Rule {
	r := Rule{Kind: kind, ID: id}
	switch kind {
	case "PDR":
		r.FAR = uint32(g.r.Range(1, 3))
		r.Uplink = g.r.Bool()
		r.UEIP = g.r.Chance(2, 3)
		n := g.r.Intn(3)
		if g.p.URRHeavy {
			n = g.r.Intn(4)
		}
		seen := map[uint32]bool{}
		for i := 0; i < n; i++ {
			u := uint32(g.r.Range(1, 3))
			if !seen[u] {
				seen[u] = true
				r.URRs = append(r.URRs, u)
			}
		}
		if g.r.Chance(1, 3) {
			r.QERs = []uint32{uint32(g.r.Range(1, 2))}
		}
	case "FAR":
		r.Action = []uint16{1, 2, 4, 0xc}[g.r.Intn(4)]
		if g.r.Bool() {
			r.Peer = g.r.Range(1, 2)
			r.TEID = uint32(0x2000 + g.r.Intn(16))
		}
		if g.r.Chance(1, 4) {
			r.BAR = 1
		}
	case "QER":
		if g.r.Bool() {
			r.QFI = uint8(g.r.Range(1, 63))
		}
	case "URR":
		r.Method = []uint8{2, 2, 1, 3, 6, 4}[g.r.Intn(6)]
		r.MNOP = g.r.Bool()
		r.Trig = []uint32{2, 1, 3, 0x100}[g.r.Intn(4)]
		if r.Trig&1 != 0 {
			r.Period = uint32(3600 * g.r.Range(1, 3))
		}
	}
	return r
}

func (g *gen) creates(s *genSess, max int) []Rule {
	var out []Rule
	n := g.r.Intn(max + 1)
	for i := 0; i < n; i++ {
		kind := kinds[g.r.Intn(len(kinds))]
		if g.p.URRHeavy && g.r.Bool() {
			kind = []string{"PDR", "URR"}[g.r.Intn(2)]
		}
		id := g.pickID(kind)
		if g.p.NoDupCreate && s.rules[kind][id] {
			continue
		}
		dup := false
		for _, o := range out {
			if o.Kind == kind && o.ID == id && g.p.NoDupCreate {
				dup = true
			}
		}
		if dup {
			continue
		}
		nr := g.rule(kind, id)
		// child-IE order is free in a grouped IE: a third of the PDRs carry their PDR ID behind the URR IDs
		// (derived from values already drawn, so that the histories of a seed are otherwise unchanged)
		nr.IDLast = kind == "PDR" && (int(id)+len(nr.URRs)+i+n)%3 == 0
		out = append(out, nr)
		s.rules[kind][id] = true
	}
	return out
}

func newGenSess(h, node int, cp uint64) *genSess {
	s := &genSess{h: h, node: node, cp: cp, alive: true, rules: map[string]map[uint64]bool{}}
	for _, k := range kinds {
		s.rules[k] = map[uint64]bool{}
	}
	return s
}

// seidClass returns a SEID that is (by the generator's book-keeping) not live.
func (g *gen) seidClass() uint64 {
	switch g.r.Intn(7) {
	case 0:
		return 0
	case 1:
		return uint64(len(g.sess) + 1 + g.r.Intn(3)) // beyond the table
	case 2:
		return 1 << 63
	case 3:
		return ^uint64(0)
	case 4:
		return 1<<63 + uint64(g.r.Intn(5)) + 1
	case 5:
		return uint64(1)<<32 + uint64(g.r.Intn(4))
	default:
		return g.r.U64() | 1<<40
	}
}

// Generate builds one history from the PRNG.
func Generate(r *Rng, p GenProfile) *History {
	g := &gen{r: r, p: p, assoc: map[int]bool{}}
	nodes := r.Range(1, p.MaxNodes)
	g.h = &History{Nodes: nodes}
	nops := r.Range(p.MinOps, p.MaxOps)
	add := func(o Op) { g.h.Ops = append(g.h.Ops, o) }
	// most histories start with associations
	for n := 0; n < nodes; n++ {
		if r.Chance(9, 10) {
			add(Op{K: "assoc", Node: n, NodeID: n})
			g.assoc[n] = true
		}
	}
	pendingTx := false
	var pendingRefs []int // indices of report steps whose request is still unanswered
	var forced []int      // op kinds queued by a churn burst
	for len(g.h.Ops) < nops {
		if p.LateAnswers && len(pendingRefs) > 0 && r.Chance(1, 4) {
			k := r.Intn(len(pendingRefs))
			ref := pendingRefs[k]
			pendingRefs = append(pendingRefs[:k], pendingRefs[k+1:]...)
			ans := "seid0"
			if r.Chance(1, 4) {
				ans = "accept"
			}
			add(Op{K: "lateans", Node: g.h.Ops[ref].Node, NodeID: -1, Sess: g.h.Ops[ref].Sess, Ref: ref, Answer: ans})
			if ans == "seid0" {
				for _, s := range g.sess {
					if s.h == g.h.Ops[ref].Sess {
						s.alive = false // if it still was
					}
				}
			}
			continue
		}
		if pendingTx && r.Chance(1, 3) {
			add(Op{K: "txto", Node: 0, NodeID: -1, Sess: -1})
			pendingTx = false
		}
		live := g.liveSessions()
		if p.Ticks && len(live) > 0 && r.Chance(1, 7) {
			add(Op{K: "tick", Node: 0, NodeID: -1, Sess: -1, Period: []uint32{3600, 7200, 10800}[r.Intn(3)]})
			continue
		}
		w := []int{
			2,           // 0 hb
			p.Reassoc,   // 1 assoc
			6,           // 2 est
			p.RuleChurn, // 3 mod
			3,           // 4 del
			p.Reports,   // 5 usage report
			p.Negative,  // 6 negative
			p.Dups,      // 7 retransmission of an earlier request
			0,           // 8 buffered downlink packet notification
		}
		if p.DLDR && len(live) > 0 {
			w[8] = 3
		}
		if p.OneSession && len(g.sess) > 0 {
			w[2] = 0
			w[1] = 0
		}
		if len(live) >= p.MaxSess {
			w[2] = 0
		}
		if len(live) == 0 {
			w[3], w[4], w[5] = 0, 0, 0
		}
		tot := 0
		for _, x := range w {
			tot += x
		}
		c := r.Intn(tot)
		k := 0
		for c >= w[k] {
			c -= w[k]
			k++
		}
		if p.Churn {
			if len(forced) == 0 && len(live) >= 2 && r.Chance(1, 6) {
				n := 2 + r.Intn(2)
				if n > len(live) {
					n = len(live)
				}
				for j := 0; j < n; j++ {
					forced = append(forced, 4)
				}
				for j := 0; j < n; j++ {
					forced = append(forced, 2)
				}
				for j := 0; j < n; j++ {
					forced = append(forced, 3)
				}
			}
			if len(forced) > 0 {
				k = forced[0]
				forced = forced[1:]
				if (k == 3 || k == 4) && len(live) == 0 {
					continue
				}
			}
		}
		switch k {
		case 0:
			add(Op{K: "hb", Node: r.Intn(nodes), NodeID: -1})
		case 1:
			n := r.Intn(nodes)
			o := Op{K: "assoc", Node: n, NodeID: n}
			add(o)
			g.assoc[n] = true
			for _, s := range g.sess {
				if s.node == n {
					s.alive = false
				}
			}
		case 2:
			n := r.Intn(nodes)
			if !g.assoc[n] && r.Chance(3, 4) {
				add(Op{K: "assoc", Node: n, NodeID: n})
				g.assoc[n] = true
				continue
			}
			// CP-SEIDs collide across peers but not among live sessions of one peer
			cp := uint64(0x10 + r.Intn(4))
			// (a taken-over session keeps the address of its old node: its CP-SEID is not reused either,
			// which peer "matches" a SEID-0 answer would otherwise be open)
			for _, s := range live {
				if (s.node == n || s.taken) && s.cp == cp {
					cp = uint64(0x100 + len(g.sess))
				}
			}
			h := len(g.sess)
			s := newGenSess(h, n, cp)
			o := Op{K: "est", Node: n, NodeID: n, Sess: h, CP: cp}
			if p.ExtraSock && r.Chance(1, 5) {
				o.Sock = 1
			}
			o.Create = g.creates(s, 6)
			if !g.assoc[n] {
				s.alive = false // establishment for an unknown node fails
			}
			g.sess = append(g.sess, s)
			add(o)
		case 3:
			s := live[r.Intn(len(live))]
			o := Op{K: "mod", Node: s.node, NodeID: -1, Sess: s.h}
			if p.Takeover && g.h.Extra == 0 && r.Chance(1, 6) {
				// a new SMF (fresh node id) takes the session over; only generated when the old node owns no
				// other live session, so that "which sessions move" is not in question
				others := 0
				for _, x := range live {
					if x.node == s.node && x != s {
						others++
					}
				}
				if others == 0 && s.node < nodes {
					g.h.Extra = 1
					o.Takeover = nodes + 1
					g.assoc[s.node] = false
					g.assoc[nodes] = true
					s.node = nodes
					s.taken = true
				}
			}
			if p.Takeover && o.Takeover == 0 && !s.taken && s.node < nodes && r.Chance(1, 8) {
				// the optional Node ID IE names the node the session already belongs to: nothing moves
				o.Takeover = s.node + 1
			}
			if p.ExtraSock && r.Chance(1, 6) {
				o.Sock = 1
			}
			o.Create = g.creates(s, 3)
			nrem := r.Intn(3)
			for i := 0; i < nrem; i++ {
				kind := kinds[r.Intn(len(kinds))]
				if p.URRHeavy {
					kind = []string{"PDR", "URR", "URR", "FAR"}[r.Intn(4)]
				}
				id := g.pickID(kind)
				o.Remove = append(o.Remove, Rule{Kind: kind, ID: id})
				delete(s.rules[kind], id)
			}
			nupd := r.Intn(3)
			for i := 0; i < nupd; i++ {
				kind := kinds[r.Intn(len(kinds))]
				if p.URRHeavy {
					kind = []string{"PDR", "PDR", "URR", "FAR"}[r.Intn(4)]
				}
				u := g.rule(kind, g.pickID(kind))
				if kind == "PDR" && r.Chance(1, 4) {
					u.NoURR = true
					u.URRs = nil
				}
				if kind == "PDR" && r.Bool() {
					u.FAR = 0
				}
				u.IDLast = kind == "PDR" && (int(u.ID)+len(u.URRs)+i+nupd+nrem)%3 == 0
				dupU := false
				for _, x := range o.Update {
					if x.Kind == u.Kind && x.ID == u.ID {
						dupU = true
					}
				}
				if dupU && p.NoDupCreate {
					continue // one Update IE per rule and request in the clean profiles
				}
				o.Update = append(o.Update, u)
			}
			nq := r.Intn(2)
			if p.URRHeavy {
				nq = r.Intn(3)
			}
			for i := 0; i < nq; i++ {
				o.Query = append(o.Query, uint32(g.pickID("URR")))
			}
			add(o)
		case 4:
			s := live[r.Intn(len(live))]
			add(Op{K: "del", Node: s.node, NodeID: -1, Sess: s.h})
			s.alive = false
		case 5:
			s := live[r.Intn(len(live))]
			o := Op{K: "urep", Node: s.node, NodeID: -1, Sess: s.h, Answer: "accept"}
			n := r.Range(1, 3)
			for i := 0; i < n; i++ {
				o.URRs = append(o.URRs, uint32(g.pickID("URR")))
			}
			switch r.Intn(8) {
			case 0:
				if !s.taken { // after a take-over the peer match of a SEID-0 answer is not fixed by the statement
					o.Answer = "seid0"
					s.alive = false
				}
			case 1:
				o.Answer = "ignore"
				pendingTx = p.TxTimeouts
			case 2:
				if p.TxTimeouts {
					o.Answer = "ignore"
					pendingTx = true
				}
			case 3, 4:
				if p.LateAnswers && !s.taken {
					o.Answer = "ignore"
				}
			}
			add(o)
			if p.LateAnswers && o.Answer == "ignore" && !s.taken {
				ref := len(g.h.Ops) - 1
				switch r.Intn(6) {
				case 0, 1:
					// the answer crosses the deletion of the session the report was about
					add(Op{K: "del", Node: s.node, NodeID: -1, Sess: s.h})
					s.alive = false
					add(Op{K: "lateans", Node: s.node, NodeID: -1, Sess: s.h, Ref: ref, Answer: "seid0"})
				case 2:
					// two reports in flight, both answered with SEID 0
					o2 := o
					o2.URRs = append([]uint32{}, o.URRs...)
					add(o2)
					add(Op{K: "lateans", Node: s.node, NodeID: -1, Sess: s.h, Ref: ref, Answer: "seid0"})
					add(Op{K: "lateans", Node: s.node, NodeID: -1, Sess: s.h, Ref: ref + 1, Answer: "seid0"})
					s.alive = false
				default:
					pendingRefs = append(pendingRefs, ref)
				}
			}
		case 8:
			s := live[r.Intn(len(live))]
			add(Op{K: "dldr", Node: s.node, NodeID: -1, Sess: s.h, PDR: uint16(r.Range(1, 3)), Act: []uint16{4, 0xc, 0xc, 8}[r.Intn(4)], PayLen: r.Range(1, 60), Answer: "accept"})
		case 7:
			var cand []int
			for j, o := range g.h.Ops {
				if o.K == "hb" || o.K == "assoc" || o.K == "est" || o.K == "mod" || o.K == "del" {
					cand = append(cand, j)
				}
			}
			if len(cand) == 0 {
				continue
			}
			j := cand[r.Intn(len(cand))]
			add(Op{K: "dup", Node: g.h.Ops[j].Node, Sock: g.h.Ops[j].Sock, NodeID: -1, Ref: j})
		case 6:
			n := r.Intn(nodes)
			switch r.Intn(7) {
			case 0: // modification / deletion for a SEID that is not live
				o := Op{K: []string{"mod", "del"}[r.Intn(2)], Node: n, NodeID: -1, Sess: -1, Raw: g.seidClass()}
				if o.K == "mod" {
					s := newGenSess(-1, n, 0)
					o.Create = g.creates(s, 3)
					o.Remove = []Rule{{Kind: "FAR", ID: 1}}
				}
				add(o)
			case 1: // released SEID
				var dead []*genSess
				for _, s := range g.sess {
					if !s.alive {
						dead = append(dead, s)
					}
				}
				if len(dead) == 0 {
					continue
				}
				s := dead[r.Intn(len(dead))]
				o := Op{K: []string{"mod", "del"}[r.Intn(2)], Node: n, NodeID: -1, Sess: s.h}
				if o.K == "mod" {
					o.Update = []Rule{g.rule("FAR", 1)}
					o.Query = []uint32{1}
				}
				add(o)
			case 2: // establishment under an unknown node id
				h := len(g.sess)
				s := newGenSess(h, n, 0x77)
				s.alive = false
				o := Op{K: "est", Node: n, NodeID: 7, Sess: h, CP: 0x77}
				o.Create = g.creates(s, 3)
				g.sess = append(g.sess, s)
				add(o)
			case 3: // establishment without Node ID
				h := len(g.sess)
				s := newGenSess(h, n, 0x78)
				s.alive = false
				o := Op{K: "est", Node: n, NodeID: -1, Sess: h, CP: 0x78}
				o.Create = g.creates(s, 3)
				g.sess = append(g.sess, s)
				add(o)
			case 4: // establishment without CP F-SEID
				if !g.assoc[n] {
					continue
				}
				h := len(g.sess)
				s := newGenSess(h, n, 0x79)
				s.alive = false
				o := Op{K: "est", Node: n, NodeID: n, Sess: h, CP: 0x79, NoFSEID: true}
				o.Create = g.creates(s, 3)
				g.sess = append(g.sess, s)
				add(o)
			case 5: // association without Node ID
				add(Op{K: "assoc", Node: n, NodeID: -1})
			case 6: // report for a session that is not live
				add(Op{K: "urep", Node: n, NodeID: -1, Sess: -1, Raw: g.seidClass(), URRs: []uint32{1}, Answer: "accept"})
			}
		}
	}
	return g.h
}

func (h *History) Summary() string {
	s := ""
	for _, o := range h.Ops {
		s += o.K[:1]
		if o.K == "mod" {
			s += fmt.Sprintf("(%d,%d,%d,%d)", len(o.Create), len(o.Remove), len(o.Update), len(o.Query))
		}
		if o.K == "est" {
			s += fmt.Sprintf("(%d)", len(o.Create))
		}
	}
	return s
}

// WidenIDs rewrites the small rule ids of a generated history to values spread over each id's range (the
// high bit set, the maximum, ...): rule ids are opaque to the UPF, whatever their numerical value.
func WidenIDs(h *History) {
	w32 := func(v uint64) uint64 {
		switch v {
		case 2:
			return 0x80000002
		case 3:
			return 0xfffffffe
		case 4:
			return 0x7fffffff
		}
		return v
	}
	w16 := func(v uint64) uint64 {
		switch v {
		case 2:
			return 0x8002
		case 3:
			return 0xffff
		}
		return v
	}
	fix := func(rs []Rule) {
		for i := range rs {
			r := &rs[i]
			switch r.Kind {
			case "PDR":
				r.ID = w16(r.ID)
			case "FAR", "QER", "URR":
				r.ID = w32(r.ID)
			}
			for j := range r.URRs {
				r.URRs[j] = uint32(w32(uint64(r.URRs[j])))
			}
			for j := range r.QERs {
				r.QERs[j] = uint32(w32(uint64(r.QERs[j])))
			}
			if r.FAR != 0 {
				r.FAR = uint32(w32(uint64(r.FAR)))
			}
		}
	}
	for i := range h.Ops {
		o := &h.Ops[i]
		fix(o.Create)
		fix(o.Update)
		fix(o.Remove)
		for j := range o.Query {
			o.Query[j] = uint32(w32(uint64(o.Query[j])))
		}
		for j := range o.URRs {
			o.URRs[j] = uint32(w32(uint64(o.URRs[j])))
		}
		if o.PDR != 0 {
			o.PDR = uint16(w16(uint64(o.PDR)))
		}
	}
}
