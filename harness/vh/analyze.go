package vh

import (
	"bytes"
	"encoding/binary"
	"fmt"
	"reflect"
	"sort"

	"github.com/free5gc/go-upf/internal/pfcp"
)

// Finding is one refutation produced by the oracles over a trace.
type Finding struct {
	Prop string `json:"prop"`
	Sig  string `json:"sig"`
	Desc string `json:"desc"`
	Step int    `json:"step"`
}

// URep is a decoded Usage Report IE (independent decoder).
type URep struct {
	URRID    uint32
	SEQN     uint32
	HasSEQN  bool
	Trig     uint32 // octet5 | octet6<<8 | octet7<<16
	HasVol   bool
	VolFlags uint8
	Vol      [6]uint64
	HasDur   bool
	Dur      uint32
	HasStart bool
	HasEnd   bool
	Start    uint32
	End      uint32
	Carrier  uint16
}

func ParseURep(i *IE) URep {
	u := URep{Carrier: i.T}
	if x := i.Find(TURRID); x != nil {
		u.URRID = uint32(x.Uint())
	}
	if x := i.Find(TURSEQN); x != nil {
		u.SEQN = uint32(x.Uint())
		u.HasSEQN = true
	}
	if x := i.Find(TUsaTrig); x != nil {
		for k, b := range x.V {
			if k < 3 {
				u.Trig |= uint32(b) << (8 * uint(k))
			}
		}
	}
	if x := i.Find(TVolMeas); x != nil && len(x.V) >= 1 {
		u.HasVol = true
		u.VolFlags = x.V[0]
		p := x.V[1:]
		for k := 0; k < 6; k++ {
			if u.VolFlags&(1<<uint(k)) != 0 && len(p) >= 8 {
				u.Vol[k] = binary.BigEndian.Uint64(p[:8])
				p = p[8:]
			}
		}
	}
	if x := i.Find(TDurMeas); x != nil {
		u.HasDur = true
		u.Dur = uint32(x.Uint())
	}
	if x := i.Find(TStartTime); x != nil {
		u.HasStart = true
		u.Start = uint32(x.Uint())
	}
	if x := i.Find(TEndTime); x != nil {
		u.HasEnd = true
		u.End = uint32(x.Uint())
	}
	return u
}

const (
	trigPERIO = 1 << 0
	trigVOLTH = 1 << 1
	trigIMMER = 1 << 7
	trigTERMR = 1 << 11
)

type mURR struct {
	inc     int
	next    uint32
	tainted bool
	live    bool
	method  uint8
	mnop    bool
	// periodic reporting as requested at creation; perAmb: no longer certain (Update URR, refused removal)
	perio  bool
	period uint32
	perAmb bool
}

type mSess struct {
	h      int
	node   int
	cp, up uint64
	alive  bool
	req    map[string]map[uint64]bool
	pdrURR map[uint64][]uint32
	pdrAmb map[uint64]bool // list ambiguous after an Update PDR without URR ID
	urr    map[uint32]*mURR
	dpURR  map[uint32]bool // URR believed present in the data plane (no faults)
	taken  bool            // its control was taken over by another node id at some point
	addr   string          // address of the peer it was established by
}

type mNode struct {
	assoc bool
	addr  string
}

// Analyzer steps the reference model along a trace and emits findings.
type Analyzer struct {
	tr    *Trace
	nodes map[int]*mNode
	sess  map[int]*mSess
	byUP  map[uint64]*mSess
	F     []Finding
	recov []byte
	// statistics for evidence
	NegRsp, Accepted, Teardowns, StaleIntra, URepIEs, TermReports, ImmReports, Dups int
	TxTimeouts, Retrans                                                             int
	NoFaults                                                                        bool
	// refused: rules whose removal the data plane refused (injected): they stay installed through no fault of the UPF
	refused map[RuleKey]bool
	// outst: report steps whose Session Report Request is still outstanding at the UPF (not answered, not given up)
	outst                  map[int]*mSess
	LateAnswers            int
	Ticks, PeriodicReports int
}

func (a *Analyzer) add(prop, sig, desc string, step int) {
	a.F = append(a.F, Finding{Prop: prop, Sig: prop + ":" + sig, Desc: fmt.Sprintf("step %d (%s): %s", step, a.tr.H.Ops[step].K, desc), Step: step})
}

func newMSess(h, node int, cp, up uint64) *mSess {
	s := &mSess{h: h, node: node, cp: cp, up: up, alive: true, req: map[string]map[uint64]bool{},
		pdrURR: map[uint64][]uint32{}, pdrAmb: map[uint64]bool{}, urr: map[uint32]*mURR{}, dpURR: map[uint32]bool{}}
	for _, k := range kinds {
		s.req[k] = map[uint64]bool{}
	}
	return s
}

func usageIEs(m *PMsg) []*IE {
	var out []*IE
	if m == nil {
		return nil
	}
	for _, i := range m.IEs {
		if i.T == TUsaRepMod || i.T == TUsaRepDel || i.T == TUsaRepReq {
			out = append(out, i)
		}
	}
	return out
}

func sessEqual(a, b *pfcp.VerifSess) bool { return reflect.DeepEqual(a, b) }

// twins: the live sessions of s's peer that carry s's CP-SEID (s included when alive)
func (a *Analyzer) twins(s *mSess) []*mSess {
	var out []*mSess
	// the peer is matched by address; a taken-over session keeps the address of the node it came from
	for _, s2 := range a.sess {
		if s2.alive && s2.cp == s.cp && (s2.node == s.node || (s.addr != "" && s2.addr == s.addr)) {
			out = append(out, s2)
		}
	}
	sort.Slice(out, func(i, j int) bool { return out[i].up < out[j].up })
	return out
}

func liveSet(sn *pfcp.VerifSnap) map[uint64]*pfcp.VerifSess {
	out := map[uint64]*pfcp.VerifSess{}
	for _, s := range sn.Slots {
		if s != nil {
			out[s.LocalID] = s
		}
	}
	return out
}

// Analyze runs all PFCP-level oracles (C01 C04 C05 C08 C11 C12) over a trace.
func Analyze(tr *Trace) *Analyzer {
	a := &Analyzer{tr: tr, nodes: map[int]*mNode{}, sess: map[int]*mSess{}, byUP: map[uint64]*mSess{}}
	a.NoFaults = !tr.NoRemRep
	// refused removals (the rule stays) and failed queries (no report, nothing else) leave a well-defined state;
	// failing creates / updates do not (the C11/C12 expectations are then switched off for the whole trace)
	for _, st := range tr.Steps {
		for _, c := range st.Calls {
			if c.Fault != "" && c.Op != "Remove" && c.Op != "Query" {
				a.NoFaults = false
			}
		}
	}
	a.refused = map[RuleKey]bool{}
	a.outst = map[int]*mSess{}
	upfAddr := tr.UPFIP + ":8805"
	for _, st := range tr.Steps {
		if !st.Sent || st.Post == nil {
			continue
		}
		op := st.Op
		i := st.I
		if op.K == "dup" {
			a.dup(st)
			continue
		}
		// ---- classify the request against the model's pre-state ----
		var seid0Amb []*mSess        // SEID-0 answer with more than one matching session: outcome read from the snapshot
		var target *mSess            // session addressed (mod/del/urep) when live
		targets := map[uint64]bool{} // UP SEIDs this step may touch
		ending := map[uint64]bool{}  // sessions that end in this step
		expectRsp := false
		expectAccepted := false
		switch op.K {
		case "hb":
			expectRsp = true
		case "assoc":
			if op.NodeID >= 0 {
				expectRsp = true
				expectAccepted = true
				for _, s := range a.sess {
					if s.alive && s.node == op.NodeID {
						targets[s.up] = true
						ending[s.up] = true
					}
				}
			}
		case "est":
			n := a.nodes[op.NodeID]
			if op.NodeID >= 0 && n != nil && n.assoc && !op.NoFSEID {
				expectRsp = true
				expectAccepted = true
			}
		case "tick":
			// the sessions a tick of this period may read out
			for _, s := range a.sess {
				if !s.alive {
					continue
				}
				for _, m := range s.urr {
					if m.live && (m.perAmb || m.tainted || (m.perio && m.period == op.Period)) {
						targets[s.up] = true
					}
				}
			}
		case "mod", "del", "urep", "dldr":
			if s, ok := a.byUP[st.UP]; ok && st.UP != 0 {
				target = s
				targets[s.up] = true
				if op.K == "del" {
					ending[s.up] = true
				}
				if op.K == "urep" && op.Answer == "seid0" && len(st.Reports) > 0 {
					// a SEID-0 answer ends "the session whose CP-SEID and peer match": with several live sessions of
					// one peer under one CP-SEID (stale handles can produce that) either may go
					if s.taken {
						// after a take-over, which peer "matches" a SEID-0 answer is not fixed by the statement (the
						// generator never asks for it; a stale handle can): the outcome is read from the snapshot
						seid0Amb = []*mSess{s}
					} else if twins := a.twins(s); len(twins) > 1 {
						for _, s2 := range twins {
							targets[s2.up] = true
						}
						seid0Amb = twins
					} else {
						ending[s.up] = true
					}
				}
			}
			if op.K != "urep" && op.K != "dldr" {
				expectRsp = true
				expectAccepted = target != nil
			}
		}

		var lateAmb []*mSess
		lateSkip := false
		if op.K == "lateans" {
			s0, out := a.outst[op.Ref]
			delete(a.outst, op.Ref)
			a.LateAnswers++
			switch {
			case !out || s0 == nil || op.Answer != "seid0":
				// the request is no longer outstanding (given up), or the answer is an ordinary one: nothing may change
			case s0.taken:
				lateSkip = true // whose peer "matches" after a take-over is not fixed by the statement
				for _, s2 := range a.sess {
					if s2.alive {
						targets[s2.up] = true
					}
				}
			case s0.alive && len(a.twins(s0)) > 1:
				for _, s2 := range a.twins(s0) {
					lateAmb = append(lateAmb, s2)
					targets[s2.up] = true
				}
			case s0.alive:
				target = s0
				targets[s0.up] = true
				ending[s0.up] = true
			default:
				// the session the report was about is gone; a later session of the same peer with the same CP-SEID
				// matches the answer just as well (either outcome is accepted for those)
				for _, s2 := range a.twins(s0) {
					lateAmb = append(lateAmb, s2)
					targets[s2.up] = true
				}
			}
		}
		if op.K == "txto" {
			a.outst = map[int]*mSess{}
		}
		if op.K == "txto" && st.Pre != nil {
			// C11: the counter of a URR moves with the emission of a report and with nothing else
			for si, ps := range st.Pre.Slots {
				if ps == nil || si >= len(st.Post.Slots) || st.Post.Slots[si] == nil {
					continue
				}
				for id, u := range ps.URR {
					if v, ok := st.Post.Slots[si].URR[id]; ok && v.SEQN != u.SEQN {
						a.add("C11", "seqn-moved-without-report", fmt.Sprintf("session %#x URR %d: next UR-SEQN went from %d to %d when an unanswered Session Report Request was given up (no report was emitted)",
							ps.LocalID, id, u.SEQN, v.SEQN), i)
					}
				}
			}
			a.TxTimeouts++
			a.Retrans += st.Retrans
		}

		// ---- C08: correlation ----
		if st.Rsp == nil && expectRsp {
			if st.Drops == 0 {
				a.add("C08", "no-response-"+op.K, "request was not answered", i)
			}
		}
		for k, d := range st.Extra {
			if d.M == nil {
				a.add("C08", "undecodable-datagram", fmt.Sprintf("undecodable datagram %x at SMF %d", d.B, st.ExtraAt[k]), i)
				continue
			}
			if d.M.Seq == st.Seq && (st.ExtraAt[k] != op.Node || d.Sock != st.opSock()) {
				a.add("C08", "misrouted-response", fmt.Sprintf("response (type %d seq %d) arrived at SMF %d socket %d, request came from SMF %d socket %d",
					d.M.Type, d.M.Seq, st.ExtraAt[k], d.Sock, op.Node, st.opSock()), i)
			} else if d.M.Seq != st.Seq {
				a.add("C08", "unmatched-response", fmt.Sprintf("datagram type %d seq %d matches no request of this step (request seq %d)", d.M.Type, d.M.Seq, st.Seq), i)
			}
		}
		accepted := false
		if st.Rsp != nil {
			m := st.Rsp.M
			if st.Rsp.From.String() != upfAddr {
				a.add("C08", "response-source", fmt.Sprintf("response came from %s, not the UPF address %s", st.Rsp.From, upfAddr), i)
			}
			if st.Rsp.Sock != st.opSock() {
				a.add("C08", "misrouted-response", fmt.Sprintf("response arrived at socket %d, request left from socket %d", st.Rsp.Sock, st.opSock()), i)
			}
			if m == nil {
				a.add("C08", "undecodable-response", "response not decodable", i)
			} else {
				wantType := map[string]uint8{"hb": MHeartbeatRsp, "assoc": MAssocRsp, "est": MEstRsp, "mod": MModRsp, "del": MDelRsp}[op.K]
				if m.Type != wantType {
					a.add("C08", "response-type", fmt.Sprintf("response type %d, want %d", m.Type, wantType), i)
				}
				cause := m.CauseVal()
				accepted = cause == CauseAccepted
				if op.K == "hb" || op.K == "assoc" {
					if r := m.Find(TRecovery); r == nil {
						a.add("C08", "recovery-missing", "no Recovery Time Stamp in response", i)
					} else if a.recov == nil {
						a.recov = r.V
					} else if !bytes.Equal(a.recov, r.V) {
						a.add("C08", "recovery-changed", fmt.Sprintf("recovery time stamp %x differs from the first one seen %x", r.V, a.recov), i)
					}
				}
				if op.K == "assoc" && !accepted {
					a.add("C08", "assoc-cause", fmt.Sprintf("association setup answered with cause %d", cause), i)
				}
				switch op.K {
				case "mod", "del":
					if target != nil {
						if !accepted {
							a.add("C04", "live-seid-rejected", fmt.Sprintf("request for live SEID %#x answered with cause %d", st.UP, cause), i)
						}
						if !m.HasSEID || m.SEID != target.cp {
							a.add("C08", "response-seid", fmt.Sprintf("response header SEID %#x, the peer chose %#x for this session", m.SEID, target.cp), i)
						}
					} else {
						if cause != CauseNoSession {
							a.add("C04", "dead-seid-cause", fmt.Sprintf("SEID %#x is not live but the request was answered with cause %d, want 65 (session context not found)", st.UP, cause), i)
						}
						if m.SEID != 0 {
							a.add("C08", "response-seid", fmt.Sprintf("response for unknown session carries SEID %#x, want 0", m.SEID), i)
						}
						a.NegRsp++
					}
				case "est":
					if !expectAccepted {
						if accepted {
							a.add("C08", "est-accepted-unexpectedly", "establishment without node/F-SEID context was accepted", i)
						}
					} else if accepted {
						if !m.HasSEID || m.SEID != op.CP {
							a.add("C08", "response-seid", fmt.Sprintf("establishment response header SEID %#x, the peer chose %#x", m.SEID, op.CP), i)
						}
						nid := m.Find(TNodeID)
						wantN := NodeIDv4(parseIP(a.tr.UPFIP)).V
						if nid == nil || !bytes.Equal(nid.V, wantN) {
							a.add("C08", "est-node-id", fmt.Sprintf("establishment response Node ID %v, want the UPF node id %x", nid, wantN), i)
						}
						fs := m.Find(TFSEID)
						var upseid uint64
						if fs == nil || len(fs.V) < 9 {
							a.add("C08", "est-fseid", "establishment response without a UP F-SEID", i)
						} else {
							upseid = binary.BigEndian.Uint64(fs.V[1:9])
							if upseid == 0 {
								a.add("C04", "zero-up-seid", "establishment returned UP SEID 0", i)
							} else if o, live := a.byUP[upseid]; live {
								a.add("C04", "duplicate-up-seid", fmt.Sprintf("establishment returned UP SEID %#x which session #%d still holds", upseid, o.h), i)
								a.add("C08", "est-fseid-addresses-another-session", fmt.Sprintf("the UP F-SEID %#x of the Establishment Response is the one live session #%d was given: it cannot address both", upseid, o.h), i)
							}
							// a released SEID may be re-issued only after its previous session is gone from the data plane
							for _, k := range SortedKeys(st.DPPre) {
								if k.SEID == upseid && !a.refused[k] {
									a.add("C04", "seid-reused-before-cleanup", fmt.Sprintf("UP SEID %#x issued while rule %s of its previous session is still in the data plane", upseid, k), i)
									a.add("C05", "new-session-inherits-rules", fmt.Sprintf("the new session %#x starts with rule %s of an ended session installed under its SEID (its reports and traffic now count for the new session)", upseid, k), i)
									break
								}
							}
						}
						// Created PDR entries must name PDRs of the request with their UE address
						for _, cpdr := range m.FindAll(TCreatedPDR) {
							pid := cpdr.Find(TPDRID)
							ok := false
							for _, r := range op.Create {
								if r.Kind == "PDR" && pid != nil && uint64(pid.Uint()) == r.ID && r.UEIP {
									ue := cpdr.Find(TUEIP)
									if ue != nil && len(ue.V) >= 5 && bytes.Equal(ue.V[1:5], []byte{10, 60, 0, byte(r.ID)}) {
										ok = true
									}
								}
							}
							if !ok {
								a.add("C08", "created-pdr", fmt.Sprintf("Created PDR %v does not name a PDR of the request with its UE address", cpdr), i)
							}
						}
						if upseid != 0 {
							// a (re-)issued SEID starts without anything buffered under it
							for _, ps := range st.Post.Slots {
								if ps != nil && ps.LocalID == upseid {
									for pdr, n := range ps.Q {
										if n > 0 {
											a.add("C05", "new-session-inherits-buffered-packets", fmt.Sprintf("new session %#x starts with %d packets queued for PDR %d", upseid, n, pdr), i)
										}
									}
								}
							}
							s := newMSess(op.Sess, op.NodeID, op.CP, upseid)
							if n := a.nodes[op.NodeID]; n != nil {
								s.addr = n.addr // the peer address answers are matched against; a take-over does not change it
							}
							a.sess[op.Sess] = s
							a.byUP[upseid] = s
							target = s
							targets[upseid] = true
						}
						a.Accepted++
					} else {
						a.add("C08", "est-rejected", fmt.Sprintf("well-formed establishment answered with cause %d", cause), i)
					}
				}
			}
		}

		// ---- C08/C04: rejected or unanswered requests leave no trace ----
		noEffect := false
		switch op.K {
		case "mod", "del":
			noEffect = target == nil
		case "est":
			noEffect = !(st.Rsp != nil && accepted)
		case "assoc":
			noEffect = st.Rsp == nil
		case "urep", "dldr":
			noEffect = target == nil
		case "lateans":
			noEffect = target == nil && len(lateAmb) == 0 && !lateSkip
		}
		if noEffect {
			prop := "C08"
			if (op.K == "mod" || op.K == "del" || op.K == "urep" || op.K == "lateans") && target == nil {
				prop = "C04"
			}
			if len(st.Calls) > 0 {
				a.add(prop, "side-effect-calls", fmt.Sprintf("request without effect caused data-plane calls: %s", J(st.Calls)), i)
			}
			if !reflect.DeepEqual(st.Pre.Slots, st.Post.Slots) || !reflect.DeepEqual(st.Pre.Free, st.Post.Free) ||
				!reflect.DeepEqual(st.Pre.Nodes, st.Post.Nodes) || (op.K != "lateans" && !reflect.DeepEqual(st.Pre.Tx, st.Post.Tx)) {
				a.add(prop, "side-effect-state", "rejected/unanswered request changed session, node or transaction state", i)
			}
			if !reflect.DeepEqual(st.DPPre, st.DPPost) {
				a.add(prop, "side-effect-dataplane", "rejected/unanswered request changed the data plane", i)
			}
			if op.K == "urep" && len(st.Reports) > 0 {
				a.add("C04", "report-for-dead-seid", fmt.Sprintf("a report for non-live SEID %#x produced a Session Report Request", st.UP), i)
			}
		}

		// ---- C05: isolation ----
		for _, c := range st.Calls {
			if !targets[c.SEID] {
				a.add("C05", "foreign-seid-call", fmt.Sprintf("data-plane call %s %s id %d tagged with SEID %#x which this request does not address (addressed: %v)",
					c.Op, c.Kind, c.ID, c.SEID, keysOf(targets)), i)
			}
		}
		pre, post := liveSet(st.Pre), liveSet(st.Post)
		for id, ps := range pre {
			if targets[id] {
				continue
			}
			qs, ok := post[id]
			if !ok {
				a.add("C05", "bystander-removed", fmt.Sprintf("session %#x disappeared although the request does not address it", id), i)
				continue
			}
			if op.Takeover > 0 && target != nil && pre[target.up] != nil && ps.NodeID == pre[target.up].NodeID {
				// a take-over renames the association the addressed session hangs on; which of that association's
				// other sessions move with it is not fixed by the statement: their node id is not compared
				pc, qc := *ps, *qs
				pc.NodeID, qc.NodeID = "", ""
				if sessEqual(&pc, &qc) {
					continue
				}
			}
			if !sessEqual(ps, qs) {
				a.add("C05", "bystander-changed", fmt.Sprintf("session %#x changed although the request does not address it: before %s after %s", id, J(ps), J(qs)), i)
			}
		}
		for k, g := range st.DPPre {
			if targets[k.SEID] {
				continue
			}
			if g2, ok := st.DPPost[k]; !ok || g2 != g {
				a.add("C05", "bystander-rule-changed", fmt.Sprintf("data-plane rule %s of a session the request does not address was changed/removed", k), i)
			}
		}
		for k := range st.DPPost {
			if !targets[k.SEID] {
				if _, ok := st.DPPre[k]; !ok {
					a.add("C05", "bystander-rule-added", fmt.Sprintf("data-plane rule %s appeared under a SEID the request does not address", k), i)
				}
			}
		}

		// ---- C01 (a)-(c): every call is for a rule the session has requested ----
		createdNow := map[string]map[uint64]bool{}
		for _, k := range kinds {
			createdNow[k] = map[uint64]bool{}
		}
		if op.K == "est" || op.K == "mod" {
			for _, r := range op.Create {
				createdNow[r.Kind][r.ID] = true
			}
		}
		for _, c := range st.Calls {
			s := a.byUP[c.SEID]
			if s == nil || !targets[c.SEID] {
				a.add("C01", "call-for-dead-session", fmt.Sprintf("%s %s id %d for SEID %#x which is not a live session being processed", c.Op, c.Kind, c.ID, c.SEID), i)
				continue
			}
			if c.Op == "Create" {
				if !createdNow[c.Kind][c.ID] {
					a.add("C01", "create-without-ie", fmt.Sprintf("Create %s id %d reached the data plane without a Create IE for it in this request", c.Kind, c.ID), i)
				}
				continue
			}
			if !s.req[c.Kind][c.ID] && !createdNow[c.Kind][c.ID] {
				a.add("C01", "op-on-unrequested-rule", fmt.Sprintf("%s %s id %d reached the data plane but the session has no such rule (never created, or removed by an earlier request)", c.Op, c.Kind, c.ID), i)
			}
		}

		// ---- model update ----
		switch op.K {
		case "assoc":
			if st.Rsp != nil && op.NodeID >= 0 {
				for _, s := range a.sess {
					if s.alive && s.node == op.NodeID {
						s.alive = false
						delete(a.byUP, s.up)
						a.Teardowns++
					}
				}
				a.nodes[op.NodeID] = &mNode{assoc: true, addr: st.From}
			}
		case "del":
			if target != nil {
				a.c11c12(st, target, true)
				target.alive = false
				delete(a.byUP, target.up)
				a.Teardowns++
			}
		case "est", "mod":
			if target != nil && op.K == "mod" && op.Takeover > 0 && accepted && op.Takeover-1 != target.node {
				// the session's control moves to the new node id (the old node owned nothing else)
				nw := op.Takeover - 1
				old := a.nodes[target.node]
				addr := ""
				if old != nil {
					addr = old.addr
				}
				delete(a.nodes, target.node)
				a.nodes[nw] = &mNode{assoc: true, addr: addr}
				target.node = nw
				target.taken = true
			}
			if target != nil {
				a.c11c12(st, target, false)
				for _, r := range op.Create {
					target.req[r.Kind][r.ID] = true
				}
				for _, c := range st.Calls {
					if c.Op == "Remove" && c.Err == "" {
						if c.Kind == "URR" && c.Reports == 0 {
							// the data plane removed the URR without handing back a final report (forwarder.Empty does that):
							// the session keeps the URR's record and will name it again when it is torn down - tolerated
							a.StaleIntra++
							continue
						}
						delete(target.req[c.Kind], c.ID)
					}
				}
			}
		case "dldr":
			if target != nil {
				n := 0
				for k, d := range st.Reports {
					if d.M == nil || len(d.M.FindAll(TDLDataRep)) == 0 {
						continue
					}
					n++
					if st.RepAt[k] != target.node {
						a.add("C13", "dldr-to-wrong-node", fmt.Sprintf("downlink data report arrived at SMF %d, session belongs to SMF %d", st.RepAt[k], target.node), i)
					}
					if d.M.SEID != target.cp {
						a.add("C13", "dldr-seid", fmt.Sprintf("downlink data report header SEID %#x, peer's SEID is %#x", d.M.SEID, target.cp), i)
					}
				}
				want := 0
				if op.Act&8 != 0 {
					want = 1
				}
				if n != want {
					a.add("C13", "dldr-count", fmt.Sprintf("%d downlink data reports for a notification with action %#x", n, op.Act), i)
				}
			}
		case "urep":
			if target != nil {
				a.c11reports(st, target)
				if ending[target.up] {
					target.alive = false
					delete(a.byUP, target.up)
					a.Teardowns++
				}
			}
			if op.Answer == "ignore" && len(st.Reports) > 0 {
				a.outst[i] = target
			}
			if len(seid0Amb) > 0 {
				post := liveSet(st.Post)
				for _, s2 := range seid0Amb {
					if _, still := post[s2.up]; !still {
						s2.alive = false
						delete(a.byUP, s2.up)
						a.Teardowns++
					}
				}
			}
		case "tick":
			a.tick(st)
		case "lateans":
			if target != nil && ending[target.up] {
				target.alive = false
				delete(a.byUP, target.up)
				a.Teardowns++
			}
			post := liveSet(st.Post)
			for _, s2 := range lateAmb {
				if _, still := post[s2.up]; !still {
					s2.alive = false
					delete(a.byUP, s2.up)
					a.Teardowns++
				}
			}
			if lateSkip {
				for _, s2 := range a.sess {
					if _, still := post[s2.up]; s2.alive && !still {
						s2.alive = false
						delete(a.byUP, s2.up)
					}
				}
			}
		}

		// ---- C01 (d)/(e): nothing in the data plane without a live requesting session ----
		for _, c := range st.Calls {
			if c.Op == "Remove" {
				k := RuleKey{Kind: c.Kind, SEID: c.SEID, ID: c.ID}
				if c.Fault == "na" {
					a.refused[k] = true
				} else if c.Err == "" {
					delete(a.refused, k)
				}
			}
		}
		for k := range st.DPPost {
			if a.refused[k] {
				continue
			}
			s := a.byUP[k.SEID]
			if s == nil {
				a.add("C01", "orphan-rule", fmt.Sprintf("rule %s is in the data plane but SEID %#x is not a live session", k, k.SEID), i)
				continue
			}
			if !s.req[k.Kind][k.ID] {
				a.add("C01", "unrequested-rule", fmt.Sprintf("rule %s is in the data plane but the session has no outstanding Create for it", k), i)
			}
		}

		// ---- C04: live set and structural invariants ----
		a.c04(st, post)
		if op.K == "assoc" && st.Rsp != nil && op.NodeID >= 0 {
			// C05: re-association removes exactly the node's sessions
			for id := range pre {
				_, still := post[id]
				if ending[id] && still {
					a.add("C05", "reassoc-kept-session", fmt.Sprintf("session %#x of the re-associated node survived", id), i)
				}
			}
		}
	}
	return a
}

func (st *Step) opSock() int { return st.Op.Sock }

func keysOf(m map[uint64]bool) []string {
	var out []string
	for k := range m {
		out = append(out, fmt.Sprintf("%#x", k))
	}
	sort.Strings(out)
	return out
}

func parseIP(s string) []byte {
	var a, b, c, d int
	fmt.Sscanf(s, "%d.%d.%d.%d", &a, &b, &c, &d)
	return []byte{byte(a), byte(b), byte(c), byte(d)}
}

// c04: model live set == server live set, plus structural invariants of the
// session table, free list and node table.
func (a *Analyzer) c04(st *Step, post map[uint64]*pfcp.VerifSess) {
	i := st.I
	for up, s := range a.byUP {
		ps, ok := post[up]
		if !ok {
			a.add("C04", "live-session-missing", fmt.Sprintf("session #%d (UP SEID %#x) should be live but is not in the session table", s.h, up), i)
			continue
		}
		if ps.RemoteID != s.cp {
			a.add("C04", "seid-resolves-to-other-session", fmt.Sprintf("UP SEID %#x holds CP SEID %#x, issued for %#x", up, ps.RemoteID, s.cp), i)
		}
	}
	for up := range post {
		if _, ok := a.byUP[up]; !ok {
			a.add("C04", "dead-session-present", fmt.Sprintf("UP SEID %#x is in the session table but its session has ended (or was never accepted)", up), i)
		}
	}
	sn := st.Post
	empty := map[uint64]bool{}
	for idx, s := range sn.Slots {
		if s == nil {
			empty[uint64(idx+1)] = true
			continue
		}
		if s.LocalID != uint64(idx+1) {
			a.add("C04", "slot-seid-mismatch", fmt.Sprintf("slot %d holds the session with SEID %#x", idx, s.LocalID), i)
		}
	}
	seen := map[uint64]bool{}
	for _, f := range sn.Free {
		if seen[f] {
			a.add("C04", "free-list-duplicate", fmt.Sprintf("SEID %#x is twice in the free list", f), i)
		}
		seen[f] = true
		if !empty[f] {
			a.add("C04", "free-list-live", fmt.Sprintf("SEID %#x is in the free list but its slot is not empty", f), i)
		}
	}
	for e := range empty {
		if !seen[e] {
			a.add("C04", "free-list-missing", fmt.Sprintf("slot of SEID %#x is empty but the SEID is not in the free list", e), i)
		}
	}
	owner := map[uint64]string{}
	for _, n := range sn.Nodes {
		if n.Key != n.ID {
			a.add("C04", "node-key", fmt.Sprintf("node table key %q holds node %q", n.Key, n.ID), i)
		}
		for _, id := range n.Sess {
			if o, dup := owner[id]; dup {
				a.add("C04", "session-two-owners", fmt.Sprintf("SEID %#x is owned by nodes %s and %s", id, o, n.ID), i)
			}
			owner[id] = n.ID
			if _, ok := post[id]; !ok {
				a.add("C04", "node-owns-dead-session", fmt.Sprintf("node %s lists SEID %#x which is not in the session table", n.ID, id), i)
			}
		}
	}
	for id, s := range post {
		if owner[id] == "" {
			a.add("C04", "session-without-owner", fmt.Sprintf("SEID %#x is live but no node lists it", id), i)
		} else if owner[id] != s.NodeID {
			a.add("C04", "session-owner-mismatch", fmt.Sprintf("SEID %#x is listed by node %s but belongs to %s", id, owner[id], s.NodeID), i)
		}
	}
}

// c11reports checks UR-SEQN of usage reports carried by Session Report Requests.
func (a *Analyzer) c11reports(st *Step, s *mSess) {
	first := map[uint32]bool{}
	for k, d := range st.Reports {
		if d.M == nil {
			continue
		}
		// retransmissions share the sequence number: only the first copy counts
		if first[d.M.Seq] {
			continue
		}
		first[d.M.Seq] = true
		if st.RepAt[k] != s.node {
			a.add("C10", "report-to-wrong-node", fmt.Sprintf("Session Report Request arrived at SMF %d, session belongs to SMF %d", st.RepAt[k], s.node), st.I)
		}
		if d.M.SEID != s.cp {
			a.add("C10", "report-seid", fmt.Sprintf("Session Report Request header SEID %#x, peer's SEID is %#x", d.M.SEID, s.cp), st.I)
		}
		for _, ie := range usageIEs(d.M) {
			a.seqn(st, s, ParseURep(ie))
		}
	}
}

// tick: a tick of one measurement period in the real periodic server. Every report must belong to a URR of the
// session it is delivered under that asked for periodic reports with this period, and (fault-free runs) every such
// URR is read out exactly once; UR-SEQN continues per URR.
func (a *Analyzer) tick(st *Step) {
	op := st.Op
	a.Ticks++
	// a Session Report Request goes to <node id>:8805 of the node that controls the session now (as in c11reports)
	recvIdx := func(s *mSess) int { return s.node }
	got := map[*mSess]map[uint32]int{}
	first := map[uint32]bool{}
	for k, d := range st.Reports {
		if d.M == nil || first[d.M.Seq] {
			continue
		}
		first[d.M.Seq] = true
		var cands []*mSess
		for _, s := range a.sess {
			if s.alive && s.cp == d.M.SEID && recvIdx(s) == st.RepAt[k] {
				cands = append(cands, s)
			}
		}
		ies := usageIEs(d.M)
		if len(cands) != 1 {
			// not attributable (no or several sessions of that peer with this CP-SEID): their counters are not followed further
			for _, s := range cands {
				for _, ie := range ies {
					if m := s.urr[ParseURep(ie).URRID]; m != nil {
						m.tainted = true
					}
				}
			}
			if len(cands) == 0 && a.NoFaults {
				a.add("C10", "periodic-report-to-nobody", fmt.Sprintf("periodic Session Report Request with SEID %#x at SMF %d matches no live session", d.M.SEID, st.RepAt[k]), st.I)
			}
			continue
		}
		s := cands[0]
		if got[s] == nil {
			got[s] = map[uint32]int{}
		}
		for _, ie := range ies {
			u := ParseURep(ie)
			m := s.urr[u.URRID]
			got[s][u.URRID]++
			a.PeriodicReports++
			if a.NoFaults {
				switch {
				case m == nil || !m.live:
					a.add("C05", "periodic-report-for-a-urr-the-session-does-not-have", fmt.Sprintf("tick of %d s: session %#x (CP-SEID %#x) got a periodic report for URR %d, which it does not have", op.Period, s.up, s.cp, u.URRID), st.I)
				case !m.perAmb && !m.tainted && !(m.perio && m.period == op.Period):
					a.add("C05", "periodic-report-for-a-urr-not-registered-with-this-period", fmt.Sprintf("tick of %d s: session %#x got a periodic report for URR %d, which did not ask for periodic reports with this period (a registration left behind by another session?)", op.Period, s.up, u.URRID), st.I)
				}
			}
			a.seqn(st, s, u)
		}
	}
	if !a.NoFaults {
		return
	}
	nreg := 0
	for _, s := range a.sess {
		if !s.alive {
			continue
		}
		for _, m := range s.urr {
			if m.live && m.perio && m.period == op.Period && !m.perAmb && !m.tainted {
				nreg++
				break
			}
		}
	}
	for _, s := range a.sess {
		if !s.alive || len(a.twins(s)) > 1 {
			continue
		}
		for id, m := range s.urr {
			if m.live && m.perio && m.period == op.Period && !m.perAmb && !m.tainted && got[s][id] != 1 {
				prop := "C10"
				if nreg >= 2 {
					prop = "C05" // with another session sharing the period: has its read-out been mixed up with that one's?
				}
				a.add(prop, "periodic-readout-count", fmt.Sprintf("tick of %d s: URR %d of session %#x asked for periodic reports with this period and got %d (%d sessions share the period)", op.Period, id, s.up, got[s][id], nreg), st.I)
			}
		}
	}
}

func (a *Analyzer) seqn(st *Step, s *mSess, u URep) {
	a.URepIEs++
	m := s.urr[u.URRID]
	if m == nil || m.tainted {
		return
	}
	if !u.HasSEQN {
		a.add("C11", "seqn-missing", fmt.Sprintf("usage report for URR %d carries no UR-SEQN", u.URRID), st.I)
		return
	}
	if u.SEQN != m.next {
		kind := "gap"
		if u.SEQN < m.next {
			kind = "repeat"
		}
		a.add("C11", "seqn-"+kind, fmt.Sprintf("URR %d (incarnation %d) of session #%d: UR-SEQN %d, expected %d", u.URRID, m.inc, s.h, u.SEQN, m.next), st.I)
		m.next = u.SEQN + 1
		return
	}
	m.next++
}

// c11c12 handles est/mod/del: URR incarnations, UR-SEQN of reports inside the
// response, and (fault-free runs) the exact set of termination / immediate
// reports the response must carry.
func (a *Analyzer) c11c12(st *Step, s *mSess, deletion bool) {
	op := st.Op
	i := st.I
	// 1. creates (URRs first: the code creates URRs before PDRs, and the model is order-free anyway)
	for _, r := range op.Create {
		if r.Kind != "URR" {
			continue
		}
		id := uint32(r.ID)
		if m := s.urr[id]; m != nil && m.live {
			m.tainted = true // duplicate create of a live URR: outside C11/C12's histories
			continue
		}
		inc := 1
		if m := s.urr[id]; m != nil {
			inc = m.inc + 1
		}
		s.urr[id] = &mURR{inc: inc, live: true, method: r.Method, mnop: r.MNOP, perio: r.Trig&1 != 0 && r.Period > 0, period: r.Period}
		if a.refused[RuleKey{Kind: "URR", SEID: s.up, ID: uint64(id)}] {
			// a URR of an earlier session that the data plane refused to remove still sits under this SEID and id: the
			// create cannot have installed this one (its counters, reports and registrations are not followed)
			s.urr[id].tainted = true
		}
		s.dpURR[id] = true
	}
	refs := func() map[uint32]int {
		c := map[uint32]int{}
		for _, l := range s.pdrURR {
			for _, u := range l {
				c[u]++
			}
		}
		return c
	}
	ambiguous := false
	for _, r := range op.Create {
		if r.Kind == "PDR" {
			if a.refused[RuleKey{Kind: "PDR", SEID: s.up, ID: r.ID}] {
				ambiguous = true // a leftover PDR the data plane refused to remove occupies the id
				s.pdrAmb[r.ID] = true
				for _, u := range r.URRs {
					if m := s.urr[u]; m != nil {
						m.tainted = true
					}
				}
			}
			if _, ex := s.pdrURR[r.ID]; ex {
				ambiguous = true      // duplicate PDR create: outside C12's histories
				s.pdrAmb[r.ID] = true // which of the two lists the UPF kept depends on which create the data plane refused
				// ... and so does what either list's URRs count as referenced by
				for _, u := range append(append([]uint32{}, s.pdrURR[r.ID]...), r.URRs...) {
					if m := s.urr[u]; m != nil {
						m.tainted = true
					}
				}
			}
			s.pdrURR[r.ID] = append([]uint32{}, r.URRs...)
		}
	}
	before := refs()
	// 2. expected termination reports
	required := map[uint32]int{} // URR -> exact number of TERMR reports
	allowed := map[uint32]bool{}
	immer := map[uint32]int{}
	removedURR := map[uint32]bool{}
	touched := map[uint32]bool{} // URRs named by a PDR that is removed / re-pointed in this request
	refusedNow := func(kind string, id uint64) bool {
		ref := false
		for _, c := range st.Calls {
			if c.Op == "Remove" && c.Kind == kind && c.ID == id {
				if c.Fault == "na" {
					ref = true
				} else if c.Err == "" {
					return false // removed after all (the id was named twice)
				}
			}
		}
		return ref
	}
	queryFailed := func(id uint32) bool {
		for _, c := range st.Calls {
			if c.Op == "Query" && c.Kind == "URR" && c.ID == uint64(id) && c.Fault != "" {
				return true
			}
		}
		return false
	}
	if deletion {
		for id, m := range s.urr {
			if m.live {
				if refusedNow("URR", uint64(id)) {
					// it lives on in the data plane; a referring PDR removed after it may still draw a final report
					allowed[id] = true
					continue
				}
				required[id] = 1
			}
		}
	} else {
		for _, r := range op.Remove {
			if r.Kind == "URR" {
				id := uint32(r.ID)
				if m := s.urr[id]; m != nil && m.live && !removedURR[id] && !refusedNow("URR", uint64(id)) {
					required[id] = 1
					removedURR[id] = true
				}
			}
		}
		for _, r := range op.Remove {
			if r.Kind == "PDR" {
				if refusedNow("PDR", r.ID) {
					continue // the PDR stays, with its URR list
				}
				if l, ex := s.pdrURR[r.ID]; ex {
					for _, u := range l {
						touched[u] = true
					}
					if s.pdrAmb[r.ID] {
						ambiguous = true
					}
					delete(s.pdrURR, r.ID)
					delete(s.pdrAmb, r.ID)
				}
			}
		}
		for _, r := range op.Update {
			if r.Kind == "URR" {
				if m := s.urr[uint32(r.ID)]; m != nil {
					m.perAmb = true // what an Update URR does to the periodic registration is C03's subject
				}
			}
		}
		for _, r := range op.Remove {
			if r.Kind == "URR" && refusedNow("URR", r.ID) {
				if m := s.urr[uint32(r.ID)]; m != nil {
					m.perAmb = true // given up by the control plane, still installed: not read out periodically any more
				}
			}
		}
		updSeen := map[uint64]bool{}
		for _, r := range op.Update {
			if r.Kind == "PDR" {
				if updSeen[r.ID] {
					ambiguous = true // the same PDR updated twice in one request: outside C12's histories
				}
				updSeen[r.ID] = true
				l, ex := s.pdrURR[r.ID]
				if !ex {
					continue
				}
				if r.NoURR || len(r.URRs) == 0 {
					// no URR ID IE: list unchanged (TS 29.244) or emptied (implementation) - either
					s.pdrAmb[r.ID] = true
					ambiguous = true
					continue
				}
				for _, u := range l {
					found := false
					for _, n := range r.URRs {
						if n == u {
							found = true
						}
					}
					if !found {
						touched[u] = true
					}
				}
				s.pdrURR[r.ID] = append([]uint32{}, r.URRs...)
			}
		}
		after := refs()
		for u := range touched {
			m := s.urr[u]
			if m == nil || !m.live || removedURR[u] {
				continue
			}
			if before[u] > 0 && after[u] == 0 {
				required[u] = 1
			} else {
				allowed[u] = true
			}
		}
		for _, q := range op.Query {
			if m := s.urr[q]; m != nil && m.live && !removedURR[q] {
				immer[q]++
			}
		}
	}
	// a usage query the data plane failed yields no report: what that URR owes in this response is not asserted
	noImm := map[uint32]bool{}
	for u := range s.urr {
		if queryFailed(u) {
			if required[u] > 0 && !removedURR[u] && !deletion {
				delete(required, u)
				allowed[u] = true
			}
			noImm[u] = true
		}
	}
	for _, pa := range s.pdrAmb {
		if pa {
			ambiguous = true
		}
	}
	// 3. observed reports in the response
	gotTerm := map[uint32]int{}
	gotImm := map[uint32]int{}
	if st.Rsp != nil && st.Rsp.M != nil {
		for _, ie := range usageIEs(st.Rsp.M) {
			u := ParseURep(ie)
			a.seqn(st, s, u)
			if u.Trig&trigTERMR != 0 {
				gotTerm[u.URRID]++
				a.TermReports++
			}
			if u.Trig&trigIMMER != 0 {
				gotImm[u.URRID]++
				a.ImmReports++
			}
			if u.Trig&(trigTERMR|trigIMMER) == 0 && !(op.K == "mod" && len(op.Update) > 0) {
				a.add("C12", "unmarked-report", fmt.Sprintf("usage report for URR %d in the response is marked neither termination nor immediate (trigger %#x)", u.URRID, u.Trig), i)
			}
		}
	}
	tainted := false
	for _, m := range s.urr {
		if m.tainted {
			tainted = true
		}
	}
	if a.NoFaults && !ambiguous && !tainted && st.Rsp != nil {
		ids := map[uint32]bool{}
		for u := range required {
			ids[u] = true
		}
		for u := range gotTerm {
			ids[u] = true
		}
		for u := range ids {
			want, got := required[u], gotTerm[u]
			switch {
			case want == 1 && got == 0:
				why := "its removal"
				if !removedURR[u] && !deletion {
					why = "losing its last referring PDR"
				} else if deletion {
					why = "session deletion"
				}
				a.add("C12", "termination-report-missing", fmt.Sprintf("URR %d: no termination report in the response despite %s (PDR lists %v)", u, why, s.pdrURR), i)
			case got > 1:
				a.add("C12", "termination-report-repeated", fmt.Sprintf("URR %d: %d termination reports in one response", u, got), i)
			case want == 0 && got == 1 && !allowed[u]:
				a.add("C12", "termination-report-spurious", fmt.Sprintf("URR %d: termination report although it is still referenced / was not removed (PDR lists %v)", u, s.pdrURR), i)
			}
		}
		ids = map[uint32]bool{}
		for u := range immer {
			ids[u] = true
		}
		for u := range gotImm {
			ids[u] = true
		}
		for u := range ids {
			if noImm[u] {
				continue
			}
			if immer[u] != gotImm[u] {
				a.add("C12", "immediate-report-count", fmt.Sprintf("URR %d: %d immediate reports for %d Query URR IEs", u, gotImm[u], immer[u]), i)
			}
		}
	}
	// 4. removals end the incarnation
	if deletion {
		for _, m := range s.urr {
			m.live = false
		}
		return
	}
	for id := range removedURR {
		// only a removal that reached the data plane ends the URR
		for _, c := range st.Calls {
			if c.Op == "Remove" && c.Kind == "URR" && c.ID == uint64(id) && c.Err == "" {
				s.urr[id].live = false
				delete(s.dpURR, id)
			}
		}
	}
}

// dup: a retransmitted request (same bytes, same socket, inside the retention
// window) must change nothing and be re-answered with the original response.
func (a *Analyzer) dup(st *Step) {
	i := st.I
	if st.Op.Ref >= len(a.tr.Steps) {
		return
	}
	orig := a.tr.Steps[st.Op.Ref]
	if st.Req == nil {
		return
	}
	a.Dups++
	if len(st.Calls) > 0 {
		a.add("C06", "duplicate-executed", fmt.Sprintf("retransmission of step %d caused data-plane calls %s", st.Op.Ref, J(st.Calls)), i)
	}
	if !reflect.DeepEqual(st.Pre.Slots, st.Post.Slots) || !reflect.DeepEqual(st.Pre.Free, st.Post.Free) || !reflect.DeepEqual(st.Pre.Nodes, st.Post.Nodes) ||
		!reflect.DeepEqual(st.DPPre, st.DPPost) {
		a.add("C06", "duplicate-changed-state", fmt.Sprintf("retransmission of step %d changed session, node or data-plane state", st.Op.Ref), i)
	}
	for k, d := range st.Extra {
		if d.M == nil {
			continue
		}
		a.add("C08", "retransmission-answer-mismatch", fmt.Sprintf("retransmission of step %d (seq %d from SMF %d socket %d) was answered with a datagram of type %d seq %d SEID %#x at SMF %d socket %d",
			st.Op.Ref, st.Seq, st.Op.Node, st.Op.Sock, d.M.Type, d.M.Seq, d.M.SEID, st.ExtraAt[k], d.Sock), i)
	}
	switch {
	case orig.Rsp == nil && st.Rsp != nil:
		a.add("C06", "duplicate-answered-without-original", fmt.Sprintf("step %d was not answered but its retransmission was", st.Op.Ref), i)
	case orig.Rsp != nil && st.Rsp == nil:
		if st.Drops == 0 {
			a.add("C06", "duplicate-not-reanswered", fmt.Sprintf("retransmission of step %d was not re-answered (with its own sequence number)", st.Op.Ref), i)
		}
	case orig.Rsp != nil && !bytes.Equal(orig.Rsp.B, st.Rsp.B):
		a.add("C06", "duplicate-answer-differs", fmt.Sprintf("retransmission of step %d re-answered with %x, original %x", st.Op.Ref, st.Rsp.B, orig.Rsp.B), i)
		if st.Rsp.M != nil && orig.Rsp.M != nil && (st.Rsp.M.SEID != orig.Rsp.M.SEID || st.Rsp.M.Type != orig.Rsp.M.Type) {
			a.add("C08", "retransmission-answer-mismatch", fmt.Sprintf("retransmission of step %d answered with type %d SEID %#x, original answer type %d SEID %#x",
				st.Op.Ref, st.Rsp.M.Type, st.Rsp.M.SEID, orig.Rsp.M.Type, orig.Rsp.M.SEID), i)
		}
	}
	if st.Rsp != nil && st.Rsp.Sock != st.Op.Sock {
		a.add("C08", "misrouted-response", fmt.Sprintf("answer to a retransmission arrived at socket %d, request left from socket %d", st.Rsp.Sock, st.Op.Sock), i)
	}
}
