package vh

import (
	"encoding/json"
	"flag"
	"fmt"
	"os"
	"path/filepath"
	"runtime/debug"
	"sort"
	"strings"
	"sync"
	"time"
)

// Violation is one refutation found by a monitor.
type Violation struct {
	Sig    string      `json:"sig"`
	Desc   string      `json:"desc"`
	Case   int         `json:"case"`
	Replay string      `json:"replay"`
	Detail interface{} `json:"detail,omitempty"`
}

// Result is what a worker hands back to the orchestrator.
type Result struct {
	Property     string           `json:"property"`
	Tier         string           `json:"tier"`
	Seed         uint64           `json:"seed"`
	Evaluations  int64            `json:"evaluations"`
	Sigs         map[string]bool  `json:"sigs"`
	DistinctMore int64            `json:"distinct_more"`
	Samples      []interface{}    `json:"samples"`
	Counters     map[string]int64 `json:"counters"`
	Violations   []Violation      `json:"violations"`
	Inconclusive []string         `json:"inconclusive"`
	Assumptions  []string         `json:"assumptions"`
	Rule         string           `json:"rule"`
	Exhaustive   bool             `json:"exhaustive"`
	NextCase     int              `json:"next_case"`
	Done         bool             `json:"done"`
	mu           sync.Mutex
}

type Opts struct {
	Check     string
	Tier      string
	Seed      uint64
	Worker    int
	Workers   int
	Out       string
	ReplayDir string
	Only      int
	From      int
	Race      bool
}

var O Opts

func ParseOpts(check string, args []string) {
	fs := flag.NewFlagSet(check, flag.ExitOnError)
	fs.StringVar(&O.Tier, "tier", "quick", "")
	fs.Uint64Var(&O.Seed, "seed", 1, "")
	fs.IntVar(&O.Worker, "worker", 0, "")
	fs.IntVar(&O.Workers, "workers", 1, "")
	fs.StringVar(&O.Out, "out", "", "")
	fs.StringVar(&O.ReplayDir, "replaydir", "", "")
	fs.IntVar(&O.Only, "only", -1, "")
	fs.IntVar(&O.From, "from", 0, "")
	fs.Parse(args)
	O.Check = check
}

func Thorough() bool { return O.Tier == "thorough" }

// Tiered picks a count by tier.
func Tiered(quick, thorough int) int {
	if Thorough() {
		return thorough
	}
	return quick
}

func NewResult(property string) *Result {
	r := &Result{
		Property: property, Tier: O.Tier, Seed: O.Seed,
		Sigs: map[string]bool{}, Counters: map[string]int64{},
	}
	// resume from a checkpoint left by a crashed predecessor
	if O.From > 0 && O.Out != "" {
		if b, err := os.ReadFile(r.ckptPath()); err == nil {
			var old Result
			if json.Unmarshal(b, &old) == nil && old.Property == property {
				old.Sigs, r.Sigs = nil, old.Sigs
				if r.Sigs == nil {
					r.Sigs = map[string]bool{}
				}
				r.Evaluations = old.Evaluations
				r.DistinctMore = old.DistinctMore
				r.Samples = old.Samples
				if old.Counters != nil {
					r.Counters = old.Counters
				}
				r.Violations = old.Violations
				r.Inconclusive = old.Inconclusive
			}
		}
	}
	return r
}

func (r *Result) ckptPath() string {
	return filepath.Join(O.Out, fmt.Sprintf("w%d.json", O.Worker))
}

func (r *Result) journalPath() string {
	return filepath.Join(O.Out, fmt.Sprintf("w%d.journal", O.Worker))
}

func (r *Result) Count(k string, n int64) {
	r.mu.Lock()
	r.Counters[k] += n
	r.mu.Unlock()
}

func (r *Result) Max(k string, n int64) {
	r.mu.Lock()
	if r.Counters[k] < n {
		r.Counters[k] = n
	}
	r.mu.Unlock()
}

// Eval records one executed case; sig != "" marks it non-trivial with that
// signature (distinct signatures are what distinct_nontrivial counts).
func (r *Result) Eval(sig string) {
	r.mu.Lock()
	r.Evaluations++
	if sig != "" {
		r.Sigs[sig] = true
	}
	r.mu.Unlock()
}

func (r *Result) Sample(s interface{}) {
	r.mu.Lock()
	if len(r.Samples) < 4 {
		r.Samples = append(r.Samples, s)
	}
	r.mu.Unlock()
}

func (r *Result) Inconc(reason string) {
	r.mu.Lock()
	if len(r.Inconclusive) < 50 {
		r.Inconclusive = append(r.Inconclusive, reason)
	}
	r.mu.Unlock()
}

// Violate records a violation and writes its replay file.
func (r *Result) Violate(caseIdx int, sig, desc string, detail interface{}) {
	r.mu.Lock()
	defer r.mu.Unlock()
	// keep at most 3 witnesses per signature
	n := 0
	for _, v := range r.Violations {
		if v.Sig == sig {
			n++
		}
	}
	r.Counters["violations_total"]++
	if n >= 3 {
		return
	}
	v := Violation{Sig: sig, Desc: desc, Case: caseIdx, Detail: detail}
	if O.ReplayDir != "" {
		os.MkdirAll(O.ReplayDir, 0o755)
		name := fmt.Sprintf("%s-seed%d-case%d-%s.json", O.Tier, O.Seed, caseIdx, Sig(sig)[:6])
		v.Replay = filepath.Join(O.ReplayDir, name)
		b, _ := json.MarshalIndent(map[string]interface{}{
			"property": r.Property, "tier": O.Tier, "seed": O.Seed, "case_index": caseIdx,
			"signature": sig, "desc": desc, "witness": detail,
			"replay_cmd": fmt.Sprintf("./check %s --replay %s", r.Property, v.Replay),
		}, "", " ")
		os.WriteFile(v.Replay, b, 0o644)
	}
	r.Violations = append(r.Violations, v)
}

func (r *Result) Write(done bool) {
	if O.Out == "" {
		return
	}
	r.mu.Lock()
	r.Done = done
	b, _ := json.Marshal(r)
	r.mu.Unlock()
	tmp := r.ckptPath() + ".tmp"
	os.WriteFile(tmp, b, 0o644)
	os.Rename(tmp, r.ckptPath())
}

// Journal notes which case is about to run, so that a process-fatal event can
// be attributed to it by the orchestrator.
func (r *Result) Journal(caseIdx int, note string) {
	if O.Out == "" {
		return
	}
	f, err := os.OpenFile(r.journalPath(), os.O_CREATE|os.O_WRONLY|os.O_TRUNC, 0o644)
	if err != nil {
		return
	}
	fmt.Fprintf(f, "%d %s\n", caseIdx, note)
	f.Close()
}

// Cases runs fn for every case index of this worker's share of [0,n).
// Case i's generator depends on (seed, check, i) only. A Go panic inside fn is
// passed to onPanic (nil: recorded as violation "panic").
func (r *Result) Cases(n int, fn func(i int, rng *Rng), onPanic func(i int, p interface{}, stack string)) {
	last := time.Now()
	for i := 0; i < n; i++ {
		if O.Only >= 0 {
			if i != O.Only {
				continue
			}
		} else {
			if i%O.Workers != O.Worker || i < O.From {
				continue
			}
		}
		r.NextCase = i
		r.Journal(i, "")
		func() {
			defer func() {
				if p := recover(); p != nil {
					st := string(debug.Stack())
					if onPanic != nil {
						onPanic(i, p, st)
					} else {
						msg := fmt.Sprintf("panic: %v\n%s", p, st)
						r.Violate(i, FaultSig(msg), "panic while executing case", msg)
					}
				}
			}()
			fn(i, NewRng(O.Seed, StrSel(O.Check), uint64(i)))
		}()
		if time.Since(last) > 3*time.Second {
			r.NextCase = i + 1
			r.Write(false)
			last = time.Now()
		}
	}
	r.NextCase = n
}

func (r *Result) Finish() {
	r.Write(true)
	// brief summary on stderr for humans
	keys := make([]string, 0, len(r.Counters))
	for k := range r.Counters {
		keys = append(keys, k)
	}
	sort.Strings(keys)
	var parts []string
	for _, k := range keys {
		parts = append(parts, fmt.Sprintf("%s=%d", k, r.Counters[k]))
	}
	fmt.Fprintf(os.Stderr, "[%s w%d] evals=%d distinct=%d viol=%d inconc=%d %s\n", r.Property, O.Worker,
		r.Evaluations, int64(len(r.Sigs))+r.DistinctMore, len(r.Violations), len(r.Inconclusive), strings.Join(parts, " "))
	if O.Out == "" {
		for _, v := range r.Violations {
			fmt.Printf("VIOLATION property=%s sig=%s case=%d %s\n", r.Property, v.Sig, v.Case, v.Desc)
		}
	}
}

func J(v interface{}) string {
	b, _ := json.Marshal(v)
	return string(b)
}
