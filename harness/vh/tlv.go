package vh

import (
	"encoding/binary"
	"fmt"
	"net"
	"strings"
)

// PFCP IE type numbers (TS 29.244 table 8.1.2-1), transcribed independently
// of go-pfcp.
const (
	TCreatePDR   = 1
	TPDI         = 2
	TCreateFAR   = 3
	TFwdParams   = 4
	TCreateURR   = 6
	TCreateQER   = 7
	TCreatedPDR  = 8
	TUpdatePDR   = 9
	TUpdateFAR   = 10
	TUpdFwdParam = 11
	TUpdateURR   = 13
	TUpdateQER   = 14
	TRemovePDR   = 15
	TRemoveFAR   = 16
	TRemoveURR   = 17
	TRemoveQER   = 18
	TCause       = 19
	TSrcIntf     = 20
	TFTEID       = 21
	TNetInst     = 22
	TSDFFilter   = 23
	TAppID       = 24
	TGate        = 25
	TMBR         = 26
	TGBR         = 27
	TQERCorr     = 28
	TPrecedence  = 29
	TVolThresh   = 31
	TTimeThresh  = 32
	TRepTrig     = 37
	TReportType  = 39
	TFwdPolicy   = 41
	TDstIntf     = 42
	TApplyAction = 44
	TDDNDelay    = 46
	TSMReqFlags  = 49
	TPDRID       = 56
	TFSEID       = 57
	TNodeID      = 60
	TMeasMethod  = 62
	TUsaTrig     = 63
	TMeasPeriod  = 64
	TVolMeas     = 66
	TDurMeas     = 67
	TVolQuota    = 73
	TStartTime   = 75
	TEndTime     = 76
	TQueryURR    = 77
	TUsaRepMod   = 78
	TUsaRepDel   = 79
	TUsaRepReq   = 80
	TURRID       = 81
	TDLDataRep   = 83
	TOHC         = 84
	TCreateBAR   = 85
	TUpdateBAR   = 86
	TRemoveBAR   = 87
	TBARID       = 88
	TUEIP        = 93
	TOHR         = 95
	TRecovery    = 96
	TMeasInfo    = 100
	TURSEQN      = 104
	TFARID       = 108
	TQERID       = 109
	TRQI         = 123
	TQFI         = 124
	TQueryRef    = 125
	TSuggBufCnt  = 140
	TPPI         = 158
)

// PFCP message types.
const (
	MHeartbeatReq = 1
	MHeartbeatRsp = 2
	MAssocReq     = 5
	MAssocRsp     = 6
	MAssocUpdReq  = 7
	MAssocRelReq  = 9
	MEstReq       = 50
	MEstRsp       = 51
	MModReq       = 52
	MModRsp       = 53
	MDelReq       = 54
	MDelRsp       = 55
	MRepReq       = 56
	MRepRsp       = 57
)

const (
	CauseAccepted    = 1
	CauseNoSession   = 65
	CauseRuleFailure = 73
)

// IE is a raw PFCP TLV. A grouped IE has C set and V nil.
type IE struct {
	T uint16
	V []byte
	C []*IE
}

func Raw(t uint16, v ...byte) *IE { return &IE{T: t, V: append([]byte{}, v...)} }
func Grp(t uint16, c ...*IE) *IE {
	out := &IE{T: t}
	for _, x := range c {
		if x != nil {
			out.C = append(out.C, x)
		}
	}
	return out
}

func U8(t uint16, v uint8) *IE   { return Raw(t, v) }
func U16(t uint16, v uint16) *IE { return Raw(t, byte(v>>8), byte(v)) }
func U32(t uint16, v uint32) *IE {
	return Raw(t, byte(v>>24), byte(v>>16), byte(v>>8), byte(v))
}

func be64(v uint64) []byte {
	b := make([]byte, 8)
	binary.BigEndian.PutUint64(b, v)
	return b
}

// Payload returns the IE's value octets (children marshalled for a group).
func (i *IE) Payload() []byte {
	if i.C == nil {
		return i.V
	}
	var b []byte
	for _, c := range i.C {
		b = append(b, c.Bytes()...)
	}
	return b
}

func (i *IE) Bytes() []byte {
	p := i.Payload()
	b := make([]byte, 4, 4+len(p))
	binary.BigEndian.PutUint16(b[0:2], i.T)
	binary.BigEndian.PutUint16(b[2:4], uint16(len(p)))
	return append(b, p...)
}

// Find returns the first child of type t (nil if none).
func (i *IE) Find(t uint16) *IE {
	if i == nil {
		return nil
	}
	for _, c := range i.C {
		if c.T == t {
			return c
		}
	}
	return nil
}

func (i *IE) FindAll(t uint16) []*IE {
	var out []*IE
	if i == nil {
		return nil
	}
	for _, c := range i.C {
		if c.T == t {
			out = append(out, c)
		}
	}
	return out
}

func (i *IE) String() string {
	if i == nil {
		return "<nil>"
	}
	if i.C != nil {
		var s []string
		for _, c := range i.C {
			s = append(s, c.String())
		}
		return fmt.Sprintf("%d{%s}", i.T, strings.Join(s, " "))
	}
	return fmt.Sprintf("%d:%x", i.T, i.V)
}

func (i *IE) Uint() uint64 {
	var v uint64
	if i == nil {
		return 0
	}
	for _, b := range i.V {
		v = v<<8 | uint64(b)
	}
	return v
}

// ---- commonly used IE constructors (wire formats per TS 29.244 clause 8.2) ----

func NodeIDv4(ip net.IP) *IE { return Raw(TNodeID, append([]byte{0}, ip.To4()...)...) }
func NodeIDFQDN(name string) *IE {
	b := []byte{2}
	for _, lab := range strings.Split(name, ".") {
		b = append(b, byte(len(lab)))
		b = append(b, lab...)
	}
	return Raw(TNodeID, b...)
}
func FSEIDv4(seid uint64, ip net.IP) *IE {
	b := append([]byte{0x02}, be64(seid)...)
	return Raw(TFSEID, append(b, ip.To4()...)...)
}
func RecoveryTS(ntpSecs uint32) *IE { return U32(TRecovery, ntpSecs) }
func Cause(c uint8) *IE             { return U8(TCause, c) }
func PDRID(id uint16) *IE           { return U16(TPDRID, id) }
func FARID(id uint32) *IE           { return U32(TFARID, id) }
func QERID(id uint32) *IE           { return U32(TQERID, id) }
func URRID(id uint32) *IE           { return U32(TURRID, id) }
func BARID(id uint8) *IE            { return U8(TBARID, id) }
func Precedence(v uint32) *IE       { return U32(TPrecedence, v) }
func SrcIntf(v uint8) *IE           { return U8(TSrcIntf, v) }
func DstIntf(v uint8) *IE           { return U8(TDstIntf, v) }
func FTEIDv4(teid uint32, ip net.IP) *IE {
	b := []byte{0x01, byte(teid >> 24), byte(teid >> 16), byte(teid >> 8), byte(teid)}
	return Raw(TFTEID, append(b, ip.To4()...)...)
}
func UEIPv4(ip net.IP, sd bool) *IE {
	f := byte(0x02)
	if sd {
		f |= 0x04
	}
	return Raw(TUEIP, append([]byte{f}, ip.To4()...)...)
}
func NetInst(s string) *IE { return Raw(TNetInst, []byte(s)...) }

// SDFFilter with flow description (FD) and optionally a filter id (BID).
func SDFFilter(fd string, bid *uint32) *IE {
	var flags byte
	var b []byte
	if fd != "" {
		flags |= 0x01
	}
	if bid != nil {
		flags |= 0x10
	}
	b = append(b, flags, 0)
	if fd != "" {
		b = append(b, byte(len(fd)>>8), byte(len(fd)))
		b = append(b, fd...)
	}
	if bid != nil {
		b = append(b, byte(*bid>>24), byte(*bid>>16), byte(*bid>>8), byte(*bid))
	}
	return Raw(TSDFFilter, b...)
}
func OHR(desc uint8) *IE { return U8(TOHR, desc) }

// ApplyAction in 1- or 2-octet form.
func ApplyAction(flags uint16, twoOctets bool) *IE {
	if twoOctets {
		return Raw(TApplyAction, byte(flags), byte(flags>>8))
	}
	return Raw(TApplyAction, byte(flags))
}

// OHC builds Outer Header Creation. desc is the 16-bit description (octet 5
// in the high byte). GTP-U/UDP/IPv4 = 0x0100; UDP/IPv4 = 0x0400.
func OHC(desc uint16, teid uint32, ip net.IP, port uint16) *IE {
	b := []byte{byte(desc >> 8), byte(desc)}
	hi := byte(desc >> 8)
	if hi&0x03 != 0 { // GTP-U/UDP/IPv4 or IPv6: TEID
		b = append(b, byte(teid>>24), byte(teid>>16), byte(teid>>8), byte(teid))
	}
	if hi&(0x01|0x04|0x10) != 0 { // IPv4 address
		b = append(b, ip.To4()...)
	}
	if hi&(0x04|0x08) != 0 { // UDP/IPvX: port
		b = append(b, byte(port>>8), byte(port))
	}
	return Raw(TOHC, b...)
}
func FwdPolicy(id string) *IE { return Raw(TFwdPolicy, append([]byte{byte(len(id))}, id...)...) }
func Gate(v uint8) *IE        { return U8(TGate, v) }
func bitrate(t uint16, ul, dl uint64) *IE {
	b := make([]byte, 10)
	for i := 0; i < 5; i++ {
		b[i] = byte(ul >> (8 * (4 - i)))
		b[5+i] = byte(dl >> (8 * (4 - i)))
	}
	return Raw(t, b...)
}
func MBR(ul, dl uint64) *IE  { return bitrate(TMBR, ul, dl) }
func GBR(ul, dl uint64) *IE  { return bitrate(TGBR, ul, dl) }
func QFI(v uint8) *IE        { return U8(TQFI, v) }
func RQI(v uint8) *IE        { return U8(TRQI, v) }
func PPI(v uint8) *IE        { return U8(TPPI, v) }
func QERCorr(v uint32) *IE   { return U32(TQERCorr, v) }
func MeasMethod(v uint8) *IE { return U8(TMeasMethod, v) }
func MeasInfo(v uint8) *IE   { return U8(TMeasInfo, v) }

// RepTrig builds Reporting Triggers from the flag word (bit i of octet 5 is
// bit i of the word, octet 6 bits 8..15, octet 7 bits 16..23).
func RepTrig(flags uint32, octets int) *IE {
	b := []byte{byte(flags), byte(flags >> 8), byte(flags >> 16)}
	return Raw(TRepTrig, b[:octets]...)
}
func MeasPeriod(secs uint32) *IE { return U32(TMeasPeriod, secs) }
func volumes(t uint16, flags uint8, tot, ul, dl uint64) *IE {
	b := []byte{flags}
	if flags&1 != 0 {
		b = append(b, be64(tot)...)
	}
	if flags&2 != 0 {
		b = append(b, be64(ul)...)
	}
	if flags&4 != 0 {
		b = append(b, be64(dl)...)
	}
	return Raw(t, b...)
}
func VolThresh(flags uint8, tot, ul, dl uint64) *IE { return volumes(TVolThresh, flags, tot, ul, dl) }
func VolQuota(flags uint8, tot, ul, dl uint64) *IE  { return volumes(TVolQuota, flags, tot, ul, dl) }
func DDNDelay(units uint8) *IE                      { return U8(TDDNDelay, units) }
func SuggBufCnt(v uint8) *IE                        { return U8(TSuggBufCnt, v) }
func SMReqFlags(v uint8) *IE                        { return U8(TSMReqFlags, v) }

// ---- messages ----

// PMsg is a parsed (or to-be-built) PFCP message.
type PMsg struct {
	Type    uint8
	HasSEID bool
	SEID    uint64
	Seq     uint32
	IEs     []*IE
	Raw     []byte
}

// BuildMsg marshals a PFCP message. seid==nil builds a node message.
func BuildMsg(mtype uint8, seid *uint64, seq uint32, ies ...*IE) []byte {
	var body []byte
	for _, i := range ies {
		if i != nil {
			body = append(body, i.Bytes()...)
		}
	}
	var b []byte
	if seid != nil {
		b = make([]byte, 16, 16+len(body))
		b[0] = 0x21
		binary.BigEndian.PutUint64(b[4:12], *seid)
		b[12], b[13], b[14] = byte(seq>>16), byte(seq>>8), byte(seq)
		binary.BigEndian.PutUint16(b[2:4], uint16(12+len(body)))
	} else {
		b = make([]byte, 8, 8+len(body))
		b[0] = 0x20
		b[4], b[5], b[6] = byte(seq>>16), byte(seq>>8), byte(seq)
		binary.BigEndian.PutUint16(b[2:4], uint16(4+len(body)))
	}
	b[1] = mtype
	return append(b, body...)
}

var groupedTypes = map[uint16]bool{
	TCreatePDR: true, TPDI: true, TCreateFAR: true, TFwdParams: true, TCreateURR: true,
	TCreateQER: true, TCreatedPDR: true, TUpdatePDR: true, TUpdateFAR: true, TUpdFwdParam: true,
	TUpdateURR: true, TUpdateQER: true, TRemovePDR: true, TRemoveFAR: true, TRemoveURR: true,
	TRemoveQER: true, TQueryURR: true, TUsaRepMod: true, TUsaRepDel: true, TUsaRepReq: true,
	TDLDataRep: true, TCreateBAR: true, TUpdateBAR: true, TRemoveBAR: true,
}

// ParseIEs walks a TLV sequence strictly (lengths must fit).
func ParseIEs(b []byte) ([]*IE, error) {
	var out []*IE
	for len(b) > 0 {
		if len(b) < 4 {
			return out, fmt.Errorf("truncated IE header")
		}
		t := binary.BigEndian.Uint16(b[0:2])
		l := int(binary.BigEndian.Uint16(b[2:4]))
		if len(b) < 4+l {
			return out, fmt.Errorf("IE %d length %d exceeds %d", t, l, len(b)-4)
		}
		i := &IE{T: t}
		if groupedTypes[t] {
			c, err := ParseIEs(b[4 : 4+l])
			if err != nil {
				return out, err
			}
			i.C = c
			if i.C == nil {
				i.C = []*IE{}
			}
		} else {
			i.V = append([]byte{}, b[4:4+l]...)
		}
		out = append(out, i)
		b = b[4+l:]
	}
	return out, nil
}

// ParseMsg decodes a PFCP datagram with an independent decoder.
func ParseMsg(b []byte) (*PMsg, error) {
	if len(b) < 8 {
		return nil, fmt.Errorf("short message")
	}
	m := &PMsg{Raw: append([]byte{}, b...)}
	if b[0]>>5 != 1 {
		return nil, fmt.Errorf("version %d", b[0]>>5)
	}
	m.Type = b[1]
	l := int(binary.BigEndian.Uint16(b[2:4]))
	if 4+l != len(b) {
		return nil, fmt.Errorf("length field %d, datagram %d", l, len(b))
	}
	off := 4
	if b[0]&1 != 0 {
		if len(b) < 16 {
			return nil, fmt.Errorf("short session message")
		}
		m.HasSEID = true
		m.SEID = binary.BigEndian.Uint64(b[4:12])
		off = 12
	}
	m.Seq = uint32(b[off])<<16 | uint32(b[off+1])<<8 | uint32(b[off+2])
	ies, err := ParseIEs(b[off+4:])
	m.IEs = ies
	return m, err
}

func (m *PMsg) Find(t uint16) *IE {
	if m == nil {
		return nil
	}
	for _, i := range m.IEs {
		if i.T == t {
			return i
		}
	}
	return nil
}

func (m *PMsg) FindAll(t uint16) []*IE {
	var out []*IE
	if m == nil {
		return nil
	}
	for _, i := range m.IEs {
		if i.T == t {
			out = append(out, i)
		}
	}
	return out
}

func (m *PMsg) CauseVal() int {
	c := m.Find(TCause)
	if c == nil || len(c.V) < 1 {
		return -1
	}
	return int(c.V[0])
}
