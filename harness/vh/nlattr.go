package vh

import (
	"encoding/binary"
	"fmt"
	"sort"
	"strings"
)

// NLA is one netlink attribute as seen by the simulated kernel (independent
// 30-line walker: it does not use go-nl's or go-gtp5gnl's decoders).
type NLA struct {
	Type   uint16 // without flag bits
	Nested bool
	Data   []byte // payload (not nested)
	Kids   []*NLA // payload (nested)
}

var ne = binary.LittleEndian // x86-64 / arm64 sandbox: native endian is little

func ParseNLAs(b []byte) ([]*NLA, error) {
	var out []*NLA
	for len(b) > 0 {
		if len(b) < 4 {
			return out, fmt.Errorf("truncated attribute header")
		}
		l := int(ne.Uint16(b[0:2]))
		t := ne.Uint16(b[2:4])
		if l < 4 || l > len(b) {
			return out, fmt.Errorf("attribute %d length %d of %d", t&0x3fff, l, len(b))
		}
		a := &NLA{Type: t & 0x3fff, Nested: t&0x8000 != 0}
		if a.Nested {
			k, err := ParseNLAs(b[4:l])
			if err != nil {
				return out, err
			}
			a.Kids = k
		} else {
			a.Data = append([]byte{}, b[4:l]...)
		}
		out = append(out, a)
		adv := (l + 3) &^ 3
		if adv > len(b) {
			adv = len(b)
		}
		b = b[adv:]
	}
	return out, nil
}

func (a *NLA) Encode() []byte {
	var p []byte
	if a.Nested {
		for _, k := range a.Kids {
			p = append(p, k.Encode()...)
		}
	} else {
		p = a.Data
	}
	l := 4 + len(p)
	b := make([]byte, (l+3)&^3)
	ne.PutUint16(b[0:2], uint16(l))
	t := a.Type
	if a.Nested {
		t |= 0x8000
	}
	ne.PutUint16(b[2:4], t)
	copy(b[4:], p)
	return b
}

func EncodeNLAs(as []*NLA) []byte {
	var b []byte
	for _, a := range as {
		b = append(b, a.Encode()...)
	}
	return b
}

func A8(t uint16, v uint8) *NLA { return &NLA{Type: t, Data: []byte{v}} }
func A16(t uint16, v uint16) *NLA {
	b := make([]byte, 2)
	ne.PutUint16(b, v)
	return &NLA{Type: t, Data: b}
}
func A32(t uint16, v uint32) *NLA {
	b := make([]byte, 4)
	ne.PutUint32(b, v)
	return &NLA{Type: t, Data: b}
}
func A64(t uint16, v uint64) *NLA {
	b := make([]byte, 8)
	ne.PutUint64(b, v)
	return &NLA{Type: t, Data: b}
}
func AB(t uint16, v []byte) *NLA { return &NLA{Type: t, Data: append([]byte{}, v...)} }
func AS(t uint16, s string) *NLA { return &NLA{Type: t, Data: append([]byte(s), 0)} }
func AN(t uint16, kids ...*NLA) *NLA {
	if kids == nil {
		kids = []*NLA{}
	}
	return &NLA{Type: t, Nested: true, Kids: kids}
}

func FindNLA(as []*NLA, t uint16) *NLA {
	for _, a := range as {
		if a.Type == t {
			return a
		}
	}
	return nil
}

func FindAllNLA(as []*NLA, t uint16) []*NLA {
	var out []*NLA
	for _, a := range as {
		if a.Type == t {
			out = append(out, a)
		}
	}
	return out
}

func (a *NLA) U64() uint64 {
	if a == nil {
		return 0
	}
	var v uint64
	for i := len(a.Data) - 1; i >= 0; i-- {
		v = v<<8 | uint64(a.Data[i])
	}
	return v
}

// Canon renders an attribute (tree) canonically: children sorted, so that two
// trees are equal as multisets per nesting level iff their Canon is equal.
func (a *NLA) Canon() string {
	if !a.Nested {
		return fmt.Sprintf("%d=%x", a.Type, a.Data)
	}
	return fmt.Sprintf("%d{%s}", a.Type, CanonNLAs(a.Kids))
}

func CanonNLAs(as []*NLA) string {
	var s []string
	for _, a := range as {
		s = append(s, a.Canon())
	}
	sort.Strings(s)
	return strings.Join(s, " ")
}

// DiffNLAs reports what is missing from / spurious in got relative to want
// (multiset comparison of canonical forms at the top level).
func DiffNLAs(want, got []*NLA) (missing, spurious []string) {
	cnt := map[string]int{}
	for _, a := range want {
		cnt[a.Canon()]++
	}
	for _, a := range got {
		c := a.Canon()
		if cnt[c] > 0 {
			cnt[c]--
		} else {
			spurious = append(spurious, c)
		}
	}
	for c, n := range cnt {
		for i := 0; i < n; i++ {
			missing = append(missing, c)
		}
	}
	sort.Strings(missing)
	sort.Strings(spurious)
	return
}
