package vh

import (
	"net"
	"sync"
	"time"

	"github.com/khirono/go-nl"

	"github.com/free5gc/go-upf/internal/forwarder"
	"github.com/free5gc/go-upf/internal/report"
)

// SimDriver is the real gtp5g driver wired to a simulated kernel.
type SimDriver struct {
	G        *forwarder.Gtp5g
	K        *Kernel
	UDP      *net.UDPConn // socket buffered packets are re-injected from
	WG       *sync.WaitGroup
	sh       *sentinelHandler
	mc       *SimConn // simulated multicast connection served by the real mux
	conn, ps *SimConn
}

// Sentinel registration used as a barrier for the perio server: its URR exists
// in the simulated kernel, so a tick of its (never firing) period produces a
// report, and the report reaching the handler proves that the perio goroutine
// has consumed every earlier event and finished the query.
const (
	SentSEID   = uint64(0xfffffffffffffff0)
	SentURR    = uint32(0xfffffff0)
	SentPeriod = 99 * time.Hour
)

type sentinelHandler struct {
	inner report.Handler
	ch    chan struct{}
}

func (h *sentinelHandler) NotifySessReport(sr report.SessReport) {
	if sr.SEID == SentSEID {
		select {
		case h.ch <- struct{}{}:
		default:
		}
		return
	}
	h.inner.NotifySessReport(sr)
}

func (h *sentinelHandler) PopBufPkt(seid uint64, pdr uint16) ([]byte, bool) {
	return h.inner.PopBufPkt(seid, pdr)
}

// HandleReport installs the report handler (wrapped so that sentinel reports
// are intercepted) and registers the sentinel.
func (d *SimDriver) HandleReport(inner report.Handler) {
	d.sh = &sentinelHandler{inner: inner, ch: make(chan struct{}, 64)}
	d.G.HandleReport(d.sh)
	if d.G.VerifPerio() != nil {
		d.K.mu.Lock()
		d.K.Rules[RuleKey{"URR", SentSEID, uint64(SentURR)}] = &KRule{Key: RuleKey{"URR", SentSEID, uint64(SentURR)}}
		d.K.mu.Unlock()
		d.G.VerifPerio().AddPeriodReportTimer(SentSEID, SentURR, SentPeriod)
	}
}

// PerioBarrier waits until the perio server has consumed everything posted so
// far and is idle again. False on watchdog expiry.
func (d *SimDriver) PerioBarrier() bool {
	for len(d.sh.ch) > 0 {
		<-d.sh.ch
	}
	d.G.VerifPerio().VerifInjectTick(SentPeriod)
	select {
	case <-d.sh.ch:
		return true
	case <-time.After(20 * time.Second):
		return false
	}
}

type SimDriverOpts struct {
	WG      *sync.WaitGroup
	Kernel  *Kernel // nil: a fresh one
	NoPerio bool
	NoBuff  bool
}

// NewSimDriver assembles the real Gtp5g (checkVersion, mux, perio server,
// buffering listener) over socketpair-backed netlink connections.
func NewSimDriver(o SimDriverOpts) (*SimDriver, error) {
	k := o.Kernel
	if k == nil {
		k = NewKernel()
	}
	wg := o.WG
	if wg == nil {
		wg = &sync.WaitGroup{}
	}
	conn, err := k.NewConn("genl")
	if err != nil {
		return nil, err
	}
	ps, err := k.NewConn("genl-ps")
	if err != nil {
		return nil, err
	}
	rt, err := k.NewConn("rtnl")
	if err != nil {
		return nil, err
	}
	udp, err := net.ListenUDP("udp4", &net.UDPAddr{IP: IP(0, 1), Port: 0})
	if err != nil {
		return nil, err
	}
	g, err := forwarder.VerifNewGtp5g(wg, forwarder.VerifGtp5gOpts{
		Conn: nl.Conner(conn), PsConn: nl.Conner(ps), RtConn: nl.Conner(rt),
		Family: k.Family, IfIndex: 7, UDP: udp, NoPerio: o.NoPerio, NoBuff: o.NoBuff,
	})
	if err != nil {
		k.CloseAll()
		return nil, err
	}
	return &SimDriver{G: g, K: k, UDP: udp, WG: wg, conn: conn, ps: ps}, nil
}

// Close shuts the driver down the way the application does and joins its goroutines.
func (d *SimDriver) Close() {
	d.G.Close()
	d.K.CloseAll()
}

// AttachMulticast subscribes the buffering listener to a simulated multicast
// connection on the driver's real mux: messages written with MulticastAsync
// are read and dispatched by the mux goroutine, as kernel multicasts are in
// production.
func (d *SimDriver) AttachMulticast() error {
	c, err := d.K.NewConn("mcast")
	if err != nil {
		return err
	}
	d.mc = c
	return d.G.VerifMux().PushHandler(nl.Conner(c), d.G.VerifBuff())
}

// MulticastAsync queues a multicast body (genl header + attributes) for the mux.
func (d *SimDriver) MulticastAsync(body []byte) {
	b := make([]byte, 16+len(body))
	ne.PutUint32(b[0:4], uint32(len(b)))
	ne.PutUint16(b[4:6], uint16(d.K.Family))
	copy(b[16:], body)
	d.mc.send(b)
}

// CloseConns closes the client side of the two generic-netlink connections,
// which is the first thing Gtp5g.Close does with its own sockets.
func (d *SimDriver) CloseConns() {
	d.conn.Close()
	d.ps.Close()
}

// McastBarrier waits until every multicast handed to the buffering listener
// so far (directly or through the mux) has been passed on to the PFCP server:
// a sentinel report follows them through the listener's hand-over.
func (d *SimDriver) McastBarrier() bool {
	for len(d.sh.ch) > 0 {
		<-d.sh.ch
	}
	top := AN(KRepTop, AN(KUR, A32(KUrURRID, SentURR), A32(KUrTrig, 0), A64(KUrSEID, SentSEID)))
	d.G.VerifBuff().ServeMsg(&nl.Msg{Body: append([]byte{0, 0, 0, 0}, top.Encode()...)})
	select {
	case <-d.sh.ch:
		return true
	case <-time.After(20 * time.Second):
		return false
	}
}
