// Package vh is the shared harness library of the /verif runtime-monitoring
// framework. It is compiled inside the go-upf module through a build overlay
// (see /verif/tools/vcheck.py), never committed to /repo.
package vh

import (
	"crypto/sha256"
	"encoding/hex"
	"fmt"
)

// Rng is a splitmix64 generator: tiny, deterministic, seedable per case.
type Rng struct{ s uint64 }

func mix(z uint64) uint64 {
	z += 0x9e3779b97f4a7c15
	z = (z ^ (z >> 30)) * 0xbf58476d1ce4e5b9
	z = (z ^ (z >> 27)) * 0x94d049bb133111eb
	return z ^ (z >> 31)
}

// NewRng derives a generator from a seed and any number of stream selectors.
func NewRng(seed uint64, sel ...uint64) *Rng {
	s := mix(seed ^ 0x5851f42d4c957f2d)
	for _, x := range sel {
		s = mix(s ^ mix(x))
	}
	return &Rng{s: s}
}

// StrSel turns a string (check name) into a stream selector.
func StrSel(s string) uint64 {
	h := sha256.Sum256([]byte(s))
	var v uint64
	for i := 0; i < 8; i++ {
		v = v<<8 | uint64(h[i])
	}
	return v
}

func (r *Rng) U64() uint64 {
	r.s += 0x9e3779b97f4a7c15
	z := r.s
	z = (z ^ (z >> 30)) * 0xbf58476d1ce4e5b9
	z = (z ^ (z >> 27)) * 0x94d049bb133111eb
	return z ^ (z >> 31)
}

func (r *Rng) U32() uint32 { return uint32(r.U64() >> 32) }

// Intn returns a value in [0,n).
func (r *Rng) Intn(n int) int {
	if n <= 0 {
		return 0
	}
	return int(r.U64() % uint64(n))
}

// Range returns a value in [lo,hi].
func (r *Rng) Range(lo, hi int) int { return lo + r.Intn(hi-lo+1) }

func (r *Rng) Bool() bool { return r.U64()&1 == 1 }

// Chance is true with probability num/den.
func (r *Rng) Chance(num, den int) bool { return r.Intn(den) < num }

func (r *Rng) Bytes(n int) []byte {
	b := make([]byte, n)
	for i := range b {
		b[i] = byte(r.U64())
	}
	return b
}

// Pick64 returns one of the boundary values or a random one.
func (r *Rng) Pick64(bounds ...uint64) uint64 {
	if len(bounds) > 0 && r.Chance(1, 2) {
		return bounds[r.Intn(len(bounds))]
	}
	return r.U64()
}

func (r *Rng) Perm(n int) []int {
	p := make([]int, n)
	for i := range p {
		p[i] = i
	}
	for i := n - 1; i > 0; i-- {
		j := r.Intn(i + 1)
		p[i], p[j] = p[j], p[i]
	}
	return p
}

// Sig hashes any printable description into a short stable signature.
func Sig(parts ...interface{}) string {
	h := sha256.New()
	for _, p := range parts {
		fmt.Fprintf(h, "%v\x00", p)
	}
	return hex.EncodeToString(h.Sum(nil)[:8])
}
