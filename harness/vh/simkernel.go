package vh

import (
	"fmt"
	"sort"
	"sync"
	"sync/atomic"
	"syscall"
	"time"
	"unsafe"
)

// gtp5g generic-netlink commands and attribute numbers (transcribed from the
// gtp5g UAPI as mirrored by go-gtp5gnl's tables).
const (
	KCmdAddPDR = 1
	KCmdAddFAR = 2
	KCmdAddQER = 3
	KCmdDelPDR = 4
	KCmdDelFAR = 5
	KCmdDelQER = 6
	KCmdGetPDR = 7
	KCmdGetFAR = 8
	KCmdGetQER = 9
	KCmdAddURR = 10
	KCmdAddBAR = 11
	KCmdDelURR = 12
	KCmdDelBAR = 13
	KCmdGetURR = 14
	KCmdGetBAR = 15
	KCmdGetVer = 16
	KCmdGetRep = 17
	KCmdGetMul = 19

	KLink = 1

	KPdrID         = 3
	KPdrPrecedence = 4
	KPdrPDI        = 5
	KPdrOHR        = 6
	KPdrFarID      = 7
	KPdrRoleAddr   = 8
	KPdrUnixPath   = 9
	KPdrQerID      = 10
	KPdrSEID       = 11
	KPdrUrrID      = 12

	KPdiUEAddr  = 1
	KPdiFTEID   = 2
	KPdiSDF     = 3
	KPdiSrcIntf = 4

	KFteidTEID = 1
	KFteidAddr = 2

	KSdfFD  = 1
	KSdfTTC = 2
	KSdfSPI = 3
	KSdfFL  = 4
	KSdfBID = 5

	KFdAction  = 1
	KFdDir     = 2
	KFdProto   = 3
	KFdSrcIP   = 4
	KFdSrcMask = 5
	KFdDstIP   = 6
	KFdDstMask = 7
	KFdSrcPort = 8
	KFdDstPort = 9

	KFarID      = 3
	KFarAction  = 4
	KFarFwd     = 5
	KFarRelPDR  = 6
	KFarSEID    = 7
	KFarBarID   = 8
	KFwdOHC     = 1
	KFwdPolicy  = 2
	KFwdSMFlags = 3
	KOhcDesc    = 1
	KOhcTEID    = 2
	KOhcPeer    = 3
	KOhcPort    = 4

	KQerID     = 3
	KQerGate   = 4
	KQerMBR    = 5
	KQerGBR    = 6
	KQerCorr   = 7
	KQerRQI    = 8
	KQerQFI    = 9
	KQerPPI    = 10
	KQerRelPDR = 12
	KQerSEID   = 13

	KUrrID      = 3
	KUrrMethod  = 4
	KUrrTrigger = 5
	KUrrPeriod  = 6
	KUrrInfo    = 7
	KUrrSEID    = 8
	KUrrVolTh   = 9
	KUrrVolQu   = 10
	KUrrMulti   = 11
	KUrrNum     = 12

	KBarID    = 3
	KBarDelay = 4
	KBarCount = 5
	KBarSEID  = 6

	KUR      = 5
	KUrURRID = 3
	KUrTrig  = 4
	KUrSeqn  = 5
	KUrVol   = 6
	KUrQRef  = 7
	KUrStart = 8
	KUrEnd   = 9
	KUrSEID  = 10
	KBufTop  = 1
	KRepTop  = 2
	KBufPkt  = 4
	KBufID   = 5
	KBufSEID = 6
	KBufAct  = 7
)

type kindInfo struct {
	kind             string
	idAttr, seidAttr uint16
	idLen            int
}

var addCmd = map[uint8]kindInfo{
	KCmdAddPDR: {"PDR", KPdrID, KPdrSEID, 2}, KCmdAddFAR: {"FAR", KFarID, KFarSEID, 4}, KCmdAddQER: {"QER", KQerID, KQerSEID, 4},
	KCmdAddURR: {"URR", KUrrID, KUrrSEID, 4}, KCmdAddBAR: {"BAR", KBarID, KBarSEID, 1},
}
var delCmd = map[uint8]kindInfo{
	KCmdDelPDR: {"PDR", KPdrID, KPdrSEID, 2}, KCmdDelFAR: {"FAR", KFarID, KFarSEID, 4}, KCmdDelQER: {"QER", KQerID, KQerSEID, 4},
	KCmdDelURR: {"URR", KUrrID, KUrrSEID, 4}, KCmdDelBAR: {"BAR", KBarID, KBarSEID, 1},
}
var getCmd = map[uint8]kindInfo{
	KCmdGetPDR: {"PDR", KPdrID, KPdrSEID, 2}, KCmdGetFAR: {"FAR", KFarID, KFarSEID, 4}, KCmdGetQER: {"QER", KQerID, KQerSEID, 4},
	KCmdGetURR: {"URR", KUrrID, KUrrSEID, 4}, KCmdGetBAR: {"BAR", KBarID, KBarSEID, 1},
}

// KReq is one generic-netlink request as recorded by the simulated kernel.
type KReq struct {
	Idx     int
	T       int64
	Conn    string
	Cmd     uint8
	Flags   uint16
	Seq     uint32
	Attrs   []*NLA
	Errno   int
	Update  bool
	Key     RuleKey
	NRep    int // reports in the reply
	NAsked  int // URRs asked for (GET_MULTI_REPORTS)
	Serials []uint64
}

type KRule struct {
	Key   RuleKey
	Attrs []*NLA
	Gen   int
}

// KReport is a usage report fabricated by the simulated kernel; all values are
// functions of Serial so that a report seen at an SMF identifies it.
type KReport struct {
	Serial  uint64
	Key     RuleKey
	Trigger uint32 // reporting-trigger cause word as the kernel delivers it
	Origin  string // multicast query multi remove update
}

// Kernel is the simulated gtp5g data plane behind the netlink connections.
type Kernel struct {
	mu      sync.Mutex
	Family  int
	Version string
	Rules   map[RuleKey]*KRule
	Log     []*KReq
	gen     int
	serial  uint64
	Issued  map[uint64]*KReport
	// knobs
	Latency     func(r *KReq) time.Duration
	FailAt      map[int]syscall.Errno   // request index -> error (request not applied)
	FailAfter   map[int]syscall.Errno   // request index -> error returned although applied
	FailCmd     map[uint8]syscall.Errno // command -> error (every request of that command fails)
	UpdReport   bool                    // ADD_URR|REPLACE answers with a report
	StrictMulti bool                    // GET_MULTI_REPORTS fails when any URR is missing
	KeepLog     bool
	NReq        int64
	OnReq       func(r *KReq) // called (kernel goroutine, lock held) for every request
	conns       []*SimConn
}

func NewKernel() *Kernel {
	return &Kernel{Family: 0x1f, Version: "0.9.5", Rules: map[RuleKey]*KRule{}, Issued: map[uint64]*KReport{}, KeepLog: true}
}

// SimConn implements nl.Conner over one end of a socketpair; the kernel
// goroutine serves the other end.
type SimConn struct {
	cfd, kfd int
	seq      int
	k        *Kernel
	role     string
	closed   int32
	done     chan struct{}
}

func (k *Kernel) NewConn(role string) (*SimConn, error) {
	fds, err := syscall.Socketpair(syscall.AF_UNIX, syscall.SOCK_SEQPACKET|syscall.SOCK_CLOEXEC, 0)
	if err != nil {
		return nil, err
	}
	for _, fd := range fds {
		syscall.SetsockoptInt(fd, syscall.SOL_SOCKET, syscall.SO_SNDBUF, 4<<20)
		syscall.SetsockoptInt(fd, syscall.SOL_SOCKET, syscall.SO_RCVBUF, 4<<20)
	}
	c := &SimConn{cfd: fds[0], kfd: fds[1], seq: 1, k: k, role: role, done: make(chan struct{})}
	k.mu.Lock()
	k.conns = append(k.conns, c)
	k.mu.Unlock()
	go c.serve()
	return c, nil
}

func (c *SimConn) Fd() int { return c.cfd }
func (c *SimConn) Close() {
	if atomic.CompareAndSwapInt32(&c.closed, 0, 1) {
		syscall.Shutdown(c.kfd, syscall.SHUT_RDWR)
		syscall.Close(c.cfd)
	}
}
func (c *SimConn) Read(b []byte) (int, error) {
	for {
		n, err := syscall.Read(c.cfd, b)
		if err == syscall.EINTR {
			continue
		}
		if n < 0 {
			n = 0
		}
		return n, err
	}
}
func (c *SimConn) Write(b []byte) (int, error) {
	for {
		n, err := syscall.Write(c.cfd, b)
		if err == syscall.EINTR {
			continue
		}
		return n, err
	}
}
func (c *SimConn) Writev(iovs []syscall.Iovec) (int, error) {
	var b []byte
	for _, v := range iovs {
		if v.Len == 0 || v.Base == nil {
			continue
		}
		b = append(b, unsafe.Slice(v.Base, int(v.Len))...)
	}
	return c.Write(b)
}
func (c *SimConn) TakeSeq() int {
	s := c.seq
	c.seq++
	return s
}

// CloseAll closes every connection's kernel side (end of a case).
func (k *Kernel) CloseAll() {
	k.mu.Lock()
	cs := append([]*SimConn{}, k.conns...)
	k.mu.Unlock()
	for _, c := range cs {
		c.Close()
		<-c.done
		syscall.Close(c.kfd)
	}
}

func (c *SimConn) serve() {
	defer close(c.done)
	buf := make([]byte, 1<<20)
	for {
		n, err := syscall.Read(c.kfd, buf)
		if err == syscall.EINTR {
			continue
		}
		if err != nil || n <= 0 {
			return
		}
		msg := append([]byte{}, buf[:n]...)
		for len(msg) >= 16 {
			l := int(ne.Uint32(msg[0:4]))
			if l < 16 || l > len(msg) {
				break
			}
			c.handle(msg[:l])
			msg = msg[(l+3)&^3:]
			if len(msg) < 16 {
				break
			}
		}
	}
}

func (c *SimConn) send(b []byte) {
	for {
		_, err := syscall.Write(c.kfd, b)
		if err == syscall.EINTR {
			continue
		}
		return
	}
}

func nlmsg(typ uint16, seq uint32, body []byte) []byte {
	b := make([]byte, 16+len(body))
	ne.PutUint32(b[0:4], uint32(len(b)))
	ne.PutUint16(b[4:6], typ)
	ne.PutUint16(b[6:8], 0)
	ne.PutUint32(b[8:12], seq)
	ne.PutUint32(b[12:16], 4242) // non-zero port id
	copy(b[16:], body)
	return b
}

func (c *SimConn) ack(req []byte, errno int) {
	body := make([]byte, 4+16)
	ne.PutUint32(body[0:4], uint32(int32(-errno)))
	copy(body[4:], req[:16])
	c.send(nlmsg(syscall.NLMSG_ERROR, ne.Uint32(req[8:12]), body))
}

func (c *SimConn) data(req []byte, cmd uint8, attrs []*NLA) {
	body := append([]byte{cmd, 0, 0, 0}, EncodeNLAs(attrs)...)
	c.send(nlmsg(uint16(c.k.Family), ne.Uint32(req[8:12]), body))
}

func (c *SimConn) handle(m []byte) {
	k := c.k
	if c.role == "mcast" {
		return
	}
	if c.role == "rtnl" {
		c.ack(m, 0)
		return
	}
	if len(m) < 20 {
		c.ack(m, int(syscall.EINVAL))
		return
	}
	r := &KReq{T: Tick(), Conn: c.role, Cmd: m[16], Flags: ne.Uint16(m[6:8]), Seq: ne.Uint32(m[8:12])}
	attrs, err := ParseNLAs(m[20:])
	r.Attrs = attrs
	k.mu.Lock()
	r.Idx = int(k.NReq)
	k.NReq++
	var lat time.Duration
	if k.Latency != nil {
		lat = k.Latency(r)
	}
	k.mu.Unlock()
	if lat > 0 {
		time.Sleep(lat) // inside a driver call on the caller's goroutine: a real suspension point
	}
	k.mu.Lock()
	var reply []*NLA
	errno := 0
	hasReply := false
	if err != nil {
		errno = int(syscall.EINVAL)
	} else if e, ok := k.FailAt[r.Idx]; ok {
		errno = int(e)
	} else if e, ok := k.FailCmd[r.Cmd]; ok {
		errno = int(e)
	} else {
		reply, hasReply, errno = k.apply(r)
		if e, ok := k.FailAfter[r.Idx]; ok && errno == 0 {
			errno = int(e)
			hasReply = false
		}
	}
	r.Errno = errno
	if k.KeepLog {
		k.Log = append(k.Log, r)
	}
	if k.OnReq != nil {
		k.OnReq(r)
	}
	k.mu.Unlock()
	if hasReply && errno == 0 {
		c.data(m, r.Cmd, reply)
	}
	c.ack(m, errno)
}

func ruleKeyOf(ki kindInfo, attrs []*NLA) (RuleKey, bool) {
	id := FindNLA(attrs, ki.idAttr)
	if id == nil {
		return RuleKey{}, false
	}
	k := RuleKey{Kind: ki.kind, ID: id.U64()}
	if s := FindNLA(attrs, ki.seidAttr); s != nil {
		k.SEID = s.U64()
	}
	return k, true
}

// apply executes one request against the rule tables. Lock held.
func (k *Kernel) apply(r *KReq) (reply []*NLA, hasReply bool, errno int) {
	if ki, ok := addCmd[r.Cmd]; ok {
		key, ok := ruleKeyOf(ki, r.Attrs)
		if !ok {
			return nil, false, int(syscall.EINVAL)
		}
		r.Key = key
		var content []*NLA
		for _, a := range r.Attrs {
			if a.Type == KLink || a.Type == ki.idAttr || a.Type == ki.seidAttr {
				continue
			}
			content = append(content, a)
		}
		old := k.Rules[key]
		if r.Flags&syscall.NLM_F_REPLACE != 0 {
			r.Update = true
			if old == nil {
				return nil, false, int(syscall.ENOENT)
			}
			old.Attrs = mergeAttrs(old.Attrs, content, ki.kind)
			old.Gen += 1
			if ki.kind == "URR" && k.UpdReport {
				rep := k.newReport(key, 0, "update")
				r.NRep = 1
				r.Serials = append(r.Serials, rep.Serial)
				return []*NLA{k.encodeReport(rep)}, true, 0
			}
			return nil, false, 0
		}
		if old != nil {
			return nil, false, int(syscall.EEXIST)
		}
		k.gen++
		k.Rules[key] = &KRule{Key: key, Attrs: content, Gen: k.gen * 1000}
		return nil, false, 0
	}
	if ki, ok := delCmd[r.Cmd]; ok {
		key, ok := ruleKeyOf(ki, r.Attrs)
		if !ok {
			return nil, false, int(syscall.EINVAL)
		}
		r.Key = key
		if k.Rules[key] == nil {
			return nil, false, int(syscall.ENOENT)
		}
		delete(k.Rules, key)
		if ki.kind == "URR" {
			rep := k.newReport(key, 0, "remove")
			r.NRep = 1
			r.Serials = append(r.Serials, rep.Serial)
			return []*NLA{k.encodeReport(rep)}, true, 0
		}
		return nil, false, 0
	}
	if ki, ok := getCmd[r.Cmd]; ok {
		key, ok := ruleKeyOf(ki, r.Attrs)
		if !ok {
			return nil, false, int(syscall.EINVAL)
		}
		r.Key = key
		ru := k.Rules[key]
		if ru == nil {
			return nil, false, int(syscall.ENOENT)
		}
		out := []*NLA{}
		switch ki.idLen {
		case 1:
			out = append(out, A8(ki.idAttr, uint8(key.ID)))
		case 2:
			out = append(out, A16(ki.idAttr, uint16(key.ID)))
		default:
			out = append(out, A32(ki.idAttr, uint32(key.ID)))
		}
		out = append(out, A64(ki.seidAttr, key.SEID))
		out = append(out, ru.Attrs...)
		if ki.kind == "FAR" || ki.kind == "QER" {
			var rel []byte
			var pdrs []RuleKey
			for pk := range k.Rules {
				if pk.Kind == "PDR" && pk.SEID == key.SEID {
					pdrs = append(pdrs, pk)
				}
			}
			sort.Slice(pdrs, func(i, j int) bool { return pdrs[i].ID < pdrs[j].ID })
			for _, pk := range pdrs {
				p := k.Rules[pk]
				match := false
				if ki.kind == "FAR" {
					if f := FindNLA(p.Attrs, KPdrFarID); f != nil && f.U64() == key.ID {
						match = true
					}
				} else {
					for _, q := range FindAllNLA(p.Attrs, KPdrQerID) {
						if q.U64() == key.ID {
							match = true
						}
					}
				}
				if match {
					b := make([]byte, 2)
					ne.PutUint16(b, uint16(pk.ID))
					rel = append(rel, b...)
				}
			}
			if len(rel) > 0 {
				t := uint16(KFarRelPDR)
				if ki.kind == "QER" {
					t = KQerRelPDR
				}
				out = append(out, AB(t, rel))
			}
		}
		return out, true, 0
	}
	switch r.Cmd {
	case KCmdGetVer:
		return []*NLA{AS(1, k.Version)}, true, 0
	case KCmdGetRep:
		key, ok := ruleKeyOf(kindInfo{"URR", KUrrID, KUrrSEID, 4}, r.Attrs)
		if !ok {
			return nil, false, int(syscall.EINVAL)
		}
		r.Key = key
		if k.Rules[key] == nil {
			return nil, false, int(syscall.ENOENT)
		}
		rep := k.newReport(key, 0, "query")
		r.NRep = 1
		r.Serials = append(r.Serials, rep.Serial)
		return []*NLA{k.encodeReport(rep)}, true, 0
	case KCmdGetMul:
		var out []*NLA
		for _, m := range FindAllNLA(r.Attrs, KUrrMulti) {
			key, ok := ruleKeyOf(kindInfo{"URR", KUrrID, KUrrSEID, 4}, m.Kids)
			if !ok {
				continue
			}
			r.NAsked++
			if k.Rules[key] == nil {
				if k.StrictMulti {
					return nil, false, int(syscall.ENOENT)
				}
				continue
			}
			rep := k.newReport(key, 0, "multi")
			r.Serials = append(r.Serials, rep.Serial)
			out = append(out, k.encodeReport(rep))
		}
		r.NRep = len(out)
		return out, true, 0
	}
	return nil, false, int(syscall.EOPNOTSUPP)
}

// mergeAttrs: an update replaces every attribute type it carries (all
// instances); forwarding parameters are merged one level down.
func mergeAttrs(old, upd []*NLA, kind string) []*NLA {
	types := map[uint16]bool{}
	for _, a := range upd {
		types[a.Type] = true
	}
	var out []*NLA
	var oldFwd *NLA
	for _, a := range old {
		if kind == "FAR" && a.Type == KFarFwd {
			oldFwd = a
		}
		if !types[a.Type] {
			out = append(out, a)
		}
	}
	for _, a := range upd {
		if kind == "FAR" && a.Type == KFarFwd && oldFwd != nil {
			ut := map[uint16]bool{}
			for _, x := range a.Kids {
				ut[x.Type] = true
			}
			m := AN(KFarFwd)
			for _, x := range oldFwd.Kids {
				if !ut[x.Type] {
					m.Kids = append(m.Kids, x)
				}
			}
			m.Kids = append(m.Kids, a.Kids...)
			out = append(out, m)
			continue
		}
		out = append(out, a)
	}
	return out
}

func (k *Kernel) newReport(key RuleKey, trig uint32, origin string) *KReport {
	k.serial++
	rep := &KReport{Serial: k.serial, Key: key, Trigger: trig, Origin: origin}
	k.Issued[rep.Serial] = rep
	return rep
}

// ReportTimes returns the (second-aligned) start/end times of a report serial.
func ReportTimes(s uint64) (int64, int64) {
	return 1_600_000_000 + int64(s)*10, 1_600_000_000 + int64(s)*10 + 5
}

func (k *Kernel) encodeReport(r *KReport) *NLA {
	s := r.Serial
	st, en := ReportTimes(s)
	return AN(KUR,
		A32(KUrURRID, uint32(r.Key.ID)),
		A32(KUrTrig, r.Trigger),
		A32(KUrSeqn, 0),
		AN(KUrVol, A64(2, s*1000+1), A64(3, s*1000+2), A64(4, s*1000+3), A64(5, s*1000+4), A64(6, s*1000+5), A64(7, s*1000+6)),
		A64(KUrStart, uint64(st)*1e9),
		A64(KUrEnd, uint64(en)*1e9),
		A64(KUrSEID, r.Key.SEID),
	)
}

// NewMulticastReport fabricates a REPORT multicast body for the given URRs
// (which need not exist) with the given cause words.
func (k *Kernel) NewMulticastReport(keys []RuleKey, trigs []uint32) ([]byte, []*KReport) {
	k.mu.Lock()
	defer k.mu.Unlock()
	var reps []*KReport
	top := AN(KRepTop)
	for i, key := range keys {
		rep := k.newReport(key, trigs[i], "multicast")
		reps = append(reps, rep)
		top.Kids = append(top.Kids, k.encodeReport(rep))
	}
	return append([]byte{0, 0, 0, 0}, top.Encode()...), reps
}

// BufferMsg builds a BUFFER multicast body.
func BufferMsg(seid uint64, pdr uint16, action uint16, pkt []byte) []byte {
	top := AN(KBufTop, A16(KBufID, pdr), A16(KBufAct, action), A64(KBufSEID, seid), AB(KBufPkt, pkt))
	return append([]byte{0, 0, 0, 0}, top.Encode()...)
}

// Table returns rule -> generation (for comparison with the model).
func (k *Kernel) Table() map[RuleKey]int {
	k.mu.Lock()
	defer k.mu.Unlock()
	out := make(map[RuleKey]int, len(k.Rules))
	for key, r := range k.Rules {
		out[key] = r.Gen
	}
	return out
}

func (k *Kernel) Rule(key RuleKey) []*NLA {
	k.mu.Lock()
	defer k.mu.Unlock()
	if r := k.Rules[key]; r != nil {
		return r.Attrs
	}
	return nil
}

// TakeLog returns and clears the request log.
// SetFailCmd makes every following request of the command fail with errno (0 clears it).
func (k *Kernel) SetFailCmd(cmd uint8, errno syscall.Errno) {
	k.mu.Lock()
	defer k.mu.Unlock()
	if errno == 0 {
		delete(k.FailCmd, cmd)
		return
	}
	if k.FailCmd == nil {
		k.FailCmd = map[uint8]syscall.Errno{}
	}
	k.FailCmd[cmd] = errno
}

func (k *Kernel) TakeLog() []*KReq {
	k.mu.Lock()
	defer k.mu.Unlock()
	l := k.Log
	k.Log = nil
	return l
}

func (k *Kernel) Lookup(serial uint64) *KReport {
	k.mu.Lock()
	defer k.mu.Unlock()
	return k.Issued[serial]
}

func (r *KReq) String() string {
	return fmt.Sprintf("#%d %s cmd=%d flags=%#x key=%v errno=%d attrs=[%s]", r.Idx, r.Conn, r.Cmd, r.Flags, r.Key, r.Errno, CanonNLAs(r.Attrs))
}
