package vh

import (
	"fmt"
	"io"
	"log"
	"net"
	"os"
	"runtime"
	"strings"
	"sync"
	"sync/atomic"
	"time"

	"github.com/sirupsen/logrus"
	gopfcp "github.com/wmnsk/go-pfcp"

	"github.com/free5gc/go-upf/internal/forwarder"
	"github.com/free5gc/go-upf/internal/logger"
	"github.com/free5gc/go-upf/internal/pfcp"
	"github.com/free5gc/go-upf/pkg/factory"
)

// ---- logical clock ----

var clock int64

// Tick returns the next logical time stamp (one global counter for all events).
func Tick() int64 { return atomic.AddInt64(&clock, 1) }

// ---- fatal capture ----

type fatalHook struct{}

var (
	fatalMu   sync.Mutex
	fatalMsgs []string
	fatalCnt  int32
)

func (fatalHook) Levels() []logrus.Level { return []logrus.Level{logrus.FatalLevel, logrus.PanicLevel} }
func (fatalHook) Fire(e *logrus.Entry) error {
	fatalMu.Lock()
	fatalMsgs = append(fatalMsgs, e.Message)
	fatalMu.Unlock()
	atomic.AddInt32(&fatalCnt, 1)
	return nil
}

// InitLogging silences go-upf (level fatal, output discarded — which also keeps
// logrus' mutex out of the way in race builds) and turns logrus.Fatal into a
// recorded event instead of os.Exit.
func InitLogging() {
	logger.Log.SetOutput(io.Discard)
	logger.Log.SetLevel(logrus.FatalLevel)
	logger.Log.ExitFunc = func(int) {}
	logger.Log.AddHook(fatalHook{})
	log.SetOutput(io.Discard)
	gopfcp.DisableLogging()
	logrus.SetOutput(io.Discard)
}

// FatalCount is the number of logrus Fatal/Panic entries seen so far.
func FatalCount() int { return int(atomic.LoadInt32(&fatalCnt)) }

// TakeFatals returns and clears the recorded fatal messages.
func TakeFatals() []string {
	fatalMu.Lock()
	defer fatalMu.Unlock()
	out := fatalMsgs
	fatalMsgs = nil
	atomic.StoreInt32(&fatalCnt, 0)
	return out
}

// FaultSig normalises a fatal/panic message to a stable signature:
// panic class + first go-upf frame (function name, no line numbers).
func FaultSig(msg string) string {
	lines := strings.Split(msg, "\n")
	head := strings.TrimSpace(lines[0])
	// normalise numbers in the panic text
	head = normNumbers(head)
	frame := ""
	inner := ""
	for _, l := range lines[1:] {
		l = strings.TrimSpace(l)
		if strings.HasPrefix(l, "/") || strings.HasPrefix(l, "goroutine") || l == "" {
			continue
		}
		if i := strings.LastIndex(l, "("); i > 0 {
			l = l[:i]
		}
		l = strings.TrimPrefix(l, "created by ")
		if strings.HasPrefix(l, "runtime") || strings.HasPrefix(l, "panic") || strings.Contains(l, "debug.Stack") {
			continue
		}
		if strings.Contains(l, "internal/verif") {
			continue
		}
		if inner == "" && !strings.Contains(l, ".main.func") && !strings.Contains(l, ".receiver.func") {
			inner = l
		}
		if frame == "" && strings.Contains(l, "free5gc/go-upf/") && !strings.Contains(l, ".main.func") &&
			!strings.Contains(l, ".receiver.func") {
			frame = l
			break
		}
	}
	short := func(s string) string {
		s = strings.TrimPrefix(s, "github.com/free5gc/go-upf/")
		s = strings.TrimPrefix(s, "github.com/")
		return s
	}
	if inner == frame {
		return fmt.Sprintf("fault[%s]@%s", head, short(frame))
	}
	return fmt.Sprintf("fault[%s]@%s<-%s", head, short(inner), short(frame))
}

func normNumbers(s string) string {
	var b strings.Builder
	in := false
	for _, c := range s {
		if c >= '0' && c <= '9' {
			if !in {
				b.WriteByte('N')
				in = true
			}
			continue
		}
		in = false
		b.WriteRune(c)
	}
	return b.String()
}

// ---- address block ----

var (
	blockOnce sync.Once
	blockB    int
	blockLock *net.UDPConn
)

// Block returns the second octet B of this process's private 127.B.0.0/16.
// The block is claimed by binding a lock socket, so concurrently running
// checks cannot collide.
func Block() int {
	blockOnce.Do(func() {
		start := 20 + os.Getpid()%200
		for i := 0; i < 230; i++ {
			b := 20 + (start-20+i)%230
			a := &net.UDPAddr{IP: net.IPv4(127, byte(b), 255, 1), Port: 8805}
			c, err := net.ListenUDP("udp4", a)
			if err == nil {
				blockB, blockLock = b, c
				return
			}
		}
		panic("vh: no free 127.B block")
	})
	return blockB
}

func IP(c, d int) net.IP { return net.IPv4(127, byte(Block()), byte(c), byte(d)).To4() }

// ---- environment ----

type Env struct {
	UPFIP net.IP
	UPF   *net.UDPAddr
	Cfg   *factory.Config
	Srv   *pfcp.PfcpServer
	wg    *sync.WaitGroup
	Drv   forwarder.Driver

	probe    *net.UDPConn
	probeSeq uint32
	Dead     bool // the server stopped answering or hit a fatal
}

type EnvOpts struct {
	MaxRetrans     uint8
	RetransTimeout time.Duration
	WG             *sync.WaitGroup
}

var ErrNoHeartbeat = fmt.Errorf("heartbeat unanswered")
var ErrWatchdog = fmt.Errorf("watchdog")

func NewCfg(upf net.IP, o EnvOpts) *factory.Config {
	rt := o.RetransTimeout
	if rt == 0 {
		rt = time.Hour
	}
	return &factory.Config{
		Version: "1.0.3",
		Pfcp: &factory.Pfcp{
			Addr: upf.String(), NodeID: upf.String(),
			RetransTimeout: rt, MaxRetrans: o.MaxRetrans,
		},
		Gtpu:   &factory.Gtpu{Forwarder: "gtp5g"},
		Logger: &factory.Logger{Level: "fatal"},
	}
}

// StartEnv starts a fresh PFCP server on 127.B.0.1:8805 with the given driver
// and waits until it answers a heartbeat.
func StartEnv(drv forwarder.Driver, o EnvOpts) (*Env, error) {
	e := &Env{UPFIP: IP(0, 1), Drv: drv}
	e.UPF = &net.UDPAddr{IP: e.UPFIP, Port: 8805}
	e.Cfg = NewCfg(e.UPFIP, o)
	e.wg = o.WG
	if e.wg == nil {
		e.wg = &sync.WaitGroup{}
	}
	e.Srv = pfcp.NewPfcpServer(e.Cfg, drv)
	drv.HandleReport(e.Srv)
	e.Srv.Start(e.wg)
	if err := e.openProbe(); err != nil {
		return nil, err
	}
	if err := e.waitUp(); err != nil {
		return nil, err
	}
	return e, nil
}

// AttachEnv wraps a server started elsewhere (app.VerifRun).
func AttachEnv(srv *pfcp.PfcpServer, cfg *factory.Config) (*Env, error) {
	ip := net.ParseIP(cfg.Pfcp.Addr).To4()
	e := &Env{UPFIP: ip, UPF: &net.UDPAddr{IP: ip, Port: 8805}, Cfg: cfg, Srv: srv}
	if err := e.openProbe(); err != nil {
		return nil, err
	}
	if err := e.waitUp(); err != nil {
		return nil, err
	}
	return e, nil
}

func (e *Env) waitUp() error {
	deadline := time.Now().Add(10 * time.Second)
	to := 500 * time.Microsecond
	for {
		if e.heartbeat(to) == nil {
			return nil
		}
		if to < 50*time.Millisecond {
			to *= 2
		}
		if time.Now().After(deadline) {
			return fmt.Errorf("server did not come up: %w", ErrWatchdog)
		}
	}
}

func (e *Env) openProbe() error {
	c, err := net.ListenUDP("udp4", &net.UDPAddr{IP: IP(0, 250), Port: 0})
	if err != nil {
		return err
	}
	e.probe = c
	e.probeSeq = 0x700000
	return nil
}

// ProbeAddr is the address heartbeats of the barrier come from (to be ignored
// when looking at the receive-transaction table).
func (e *Env) ProbeAddr() string { return e.probe.LocalAddr().String() }

func (e *Env) heartbeat(timeout time.Duration) error {
	e.probeSeq++
	seq := e.probeSeq & 0xffffff
	b := BuildMsg(MHeartbeatReq, nil, seq, RecoveryTS(1))
	if _, err := e.probe.WriteToUDP(b, e.UPF); err != nil {
		return err
	}
	buf := make([]byte, 2048)
	deadline := time.Now().Add(timeout)
	for {
		e.probe.SetReadDeadline(deadline)
		n, _, err := e.probe.ReadFromUDP(buf)
		if err != nil {
			return ErrNoHeartbeat
		}
		m, err := ParseMsg(buf[:n])
		if err == nil && m.Type == MHeartbeatRsp && m.Seq == seq {
			return nil
		}
	}
}

// Heartbeat sends a probe and waits up to a generous wall-clock budget; used
// as the liveness monitor (a non-answer is only trusted when the server has
// demonstrably died or after repeated probes).
func (e *Env) Heartbeat() error {
	for i := 0; i < 4; i++ {
		if e.heartbeat(time.Duration(250*(i+1))*time.Millisecond) == nil {
			return nil
		}
		if FatalCount() > 0 {
			return ErrNoHeartbeat
		}
	}
	return ErrNoHeartbeat
}

// Barrier waits until everything sent or injected before it has been consumed
// by the event loop: queues empty, then a heartbeat round trip, then queues
// still empty.
func (e *Env) Barrier() error {
	deadline := time.Now().Add(20 * time.Second)
	for {
		for {
			r, s, t := e.Srv.VerifQueueLens()
			if r == 0 && s == 0 && t == 0 {
				break
			}
			if FatalCount() > 0 {
				e.Dead = true
				return ErrNoHeartbeat
			}
			if time.Now().After(deadline) {
				return ErrWatchdog
			}
			runtime.Gosched()
			time.Sleep(20 * time.Microsecond)
		}
		if err := e.Heartbeat(); err != nil {
			e.Dead = true
			return err
		}
		r, s, t := e.Srv.VerifQueueLens()
		if r == 0 && s == 0 && t == 0 {
			return nil
		}
	}
}

// Stop stops the server and joins its goroutines (watchdog 15 s).
func (e *Env) Stop() error {
	if e.probe != nil {
		e.probe.Close()
	}
	e.Srv.Stop()
	done := make(chan struct{})
	go func() { e.wg.Wait(); close(done) }()
	select {
	case <-done:
		return nil
	case <-time.After(15 * time.Second):
		return ErrWatchdog
	}
}
