package vh

import (
	"fmt"
	"io"
	"log"
	"net"
	"os"
	"runtime"
	"strings"
	"sync"
	"sync/atomic"
	"time"

	"github.com/sirupsen/logrus"
	gopfcp "github.com/wmnsk/go-pfcp"

	"github.com/free5gc/go-upf/internal/forwarder"
	"github.com/free5gc/go-upf/internal/logger"
	"github.com/free5gc/go-upf/internal/pfcp"
	"github.com/free5gc/go-upf/pkg/factory"
)

// ---- logical clock ----

var clock int64

// Tick returns the next logical time stamp (one global counter for all events).
func Tick() int64 { return atomic.AddInt64(&clock, 1) }

// ---- fatal capture ----

type fatalHook struct{}

var (
	fatalMu   sync.Mutex
	fatalMsgs []string
	fatalCnt  int32
)

func (fatalHook) Levels() []logrus.Level { return []logrus.Level{logrus.FatalLevel, logrus.PanicLevel} }
func (fatalHook) Fire(e *logrus.Entry) error {
	fatalMu.Lock()
	fatalMsgs = append(fatalMsgs, e.Message)
	fatalMu.Unlock()
	atomic.AddInt32(&fatalCnt, 1)
	return nil
}

// InitLogging silences go-upf (level fatal, output discarded — which also keeps
// logrus' mutex out of the way in race builds) and turns logrus.Fatal into a
// recorded event instead of os.Exit.
func InitLogging() {
	logger.Log.SetOutput(io.Discard)
	logger.Log.SetLevel(logrus.FatalLevel)
	logger.Log.ExitFunc = func(int) {}
	logger.Log.AddHook(fatalHook{})
	log.SetOutput(io.Discard)
	gopfcp.DisableLogging()
	logrus.SetOutput(io.Discard)
}

// FatalCount is the number of logrus Fatal/Panic entries seen so far.
func FatalCount() int { return int(atomic.LoadInt32(&fatalCnt)) }

// TakeFatals returns and clears the recorded fatal messages.
func TakeFatals() []string {
	fatalMu.Lock()
	defer fatalMu.Unlock()
	out := fatalMsgs
	fatalMsgs = nil
	atomic.StoreInt32(&fatalCnt, 0)
	return out
}

// FaultSig normalises a fatal/panic message to a stable signature:
// panic class + first go-upf frame (function name, no line numbers).
func FaultSig(msg string) string {
	lines := strings.Split(msg, "\n")
	head := strings.TrimSpace(lines[0])
	// normalise numbers in the panic text
	head = normNumbers(head)
	frame := ""
	inner := ""
	for _, l := range lines[1:] {
		l = strings.TrimSpace(l)
		if strings.HasPrefix(l, "/") || strings.HasPrefix(l, "goroutine") || l == "" {
			continue
		}
		if i := strings.LastIndex(l, "("); i > 0 {
			l = l[:i]
		}
		if strings.HasPrefix(l, "runtime") || strings.HasPrefix(l, "panic") || strings.Contains(l, "debug.Stack") {
			continue
		}
		if strings.Contains(l, "internal/verif") {
			continue
		}
		if inner == "" && !strings.Contains(l, ".main.func") && !strings.Contains(l, ".receiver.func") {
			inner = l
		}
		if frame == "" && strings.Contains(l, "free5gc/go-upf/") && !strings.Contains(l, ".main.func") &&
			!strings.Contains(l, ".receiver.func") {
			frame = l
			break
		}
	}
	short := func(s string) string {
		s = strings.TrimPrefix(s, "github.com/free5gc/go-upf/")
		s = strings.TrimPrefix(s, "github.com/")
		return s
	}
	if inner == frame {
		return fmt.Sprintf("fault[%s]@%s", head, short(frame))
	}
	return fmt.Sprintf("fault[%s]@%s<-%s", head, short(inner), short(frame))
}

func normNumbers(s string) string {
	var b strings.Builder
	in := false
	for _, c := range s {
		if c >= '0' && c <= '9' {
			if !in {
				b.WriteByte('N')
				in = true
			}
			continue
		}
		in = false
		b.WriteRune(c)
	}
	return b.String()
}

// ---- address block ----

var (
	blockOnce sync.Once
	blockB    int
	blockLock *net.UDPConn
)

// Block returns the second octet B of this process's private 127.B.0.0/16.
// The block is claimed by binding a lock socket, so concurrently running
// checks cannot collide.
func Block() int {
	blockOnce.Do(func() {
		start := 20 + os.Getpid()%200
		for i := 0; i < 230; i++ {
			b := 20 + (start-20+i)%230
			a := &net.UDPAddr{IP: net.IPv4(127, byte(b), 255, 1), Port: 8805}
			c, err := net.ListenUDP("udp4", a)
			if err == nil {
				blockB, blockLock = b, c
				return
			}
		}
		panic("vh: no free 127.B block")
	})
	return blockB
}

func IP(c, d int) net.IP { return net.IPv4(127, byte(Block()), byte(c), byte(d)).To4() }

// ---- environment ----

type Env struct {
	UPFIP net.IP
	UPF   *net.UDPAddr
	Cfg   *factory.Config
	Srv   *pfcp.PfcpServer
	wg    *sync.WaitGroup
	Drv   forwarder.Driver

	probe    *net.UDPConn
	probeSeq uint32
	Dead     bool // the server stopped answering or hit a fatal
}

type EnvOpts struct {
	MaxRetrans     uint8
	RetransTimeout time.Duration
	WG             *sync.WaitGroup
}

var ErrNoHeartbeat = fmt.Errorf("heartbeat unanswered")
var ErrWatchdog = fmt.Errorf("watchdog")

func NewCfg(upf net.IP, o EnvOpts) *factory.Config {
	rt := o.RetransTimeout
	if rt == 0 {
		rt = time.Hour
	}
	return &factory.Config{
		Version: "1.0.3",
		Pfcp: &factory.Pfcp{
			Addr: upf.String(), NodeID: upf.String(),
			RetransTimeout: rt, MaxRetrans: o.MaxRetrans,
		},
		Gtpu:   &factory.Gtpu{Forwarder: "gtp5g"},
		Logger: &factory.Logger{Level: "fatal"},
	}
}

// StartEnv starts a fresh PFCP server on 127.B.0.1:8805 with the given driver
// and waits until it answers a heartbeat.
func StartEnv(drv forwarder.Driver, o EnvOpts) (*Env, error) {
	e := &Env{UPFIP: IP(0, 1), Drv: drv}
	e.UPF = &net.UDPAddr{IP: e.UPFIP, Port: 8805}
	e.Cfg = NewCfg(e.UPFIP, o)
	e.wg = o.WG
	if e.wg == nil {
		e.wg = &sync.WaitGroup{}
	}
	e.Srv = pfcp.NewPfcpServer(e.Cfg, drv)
	drv.HandleReport(e.Srv)
	e.Srv.Start(e.wg)
	if err := e.openProbe(); err != nil {
		return nil, err
	}
	deadline := time.Now().Add(10 * time.Second)
	for {
		if e.heartbeat(50*time.Millisecond) == nil {
			return e, nil
		}
		if time.Now().After(deadline) {
			return nil, fmt.Errorf("server did not come up: %w", ErrWatchdog)
		}
	}
}

// AttachEnv wraps a server started elsewhere (app.VerifRun).
func AttachEnv(srv *pfcp.PfcpServer, cfg *factory.Config) (*Env, error) {
	ip := net.ParseIP(cfg.Pfcp.Addr).To4()
	e := &Env{UPFIP: ip, UPF: &net.UDPAddr{IP: ip, Port: 8805}, Cfg: cfg, Srv: srv}
	if err := e.openProbe(); err != nil {
		return nil, err
	}
	deadline := time.Now().Add(10 * time.Second)
	for {
		if e.heartbeat(50*time.Millisecond) == nil {
			return e, nil
		}
		if time.Now().After(deadline) {
			return nil, fmt.Errorf("server did not come up: %w", ErrWatchdog)
		}
	}
}

func (e *Env) openProbe() error {
	c, err := net.ListenUDP("udp4", &net.UDPAddr{IP: IP(0, 250), Port: 0})
	if err != nil {
		return err
	}
	e.probe = c
	e.probeSeq = 0x700000
	return nil
}

// ProbeAddr is the address heartbeats of the barrier come from (to be ignored
// when looking at the receive-transaction table).
func (e *Env) ProbeAddr() string { return e.probe.LocalAddr().String() }

func (e *Env) heartbeat(timeout time.Duration) error {
	e.probeSeq++
	seq := e.probeSeq & 0xffffff
	b := BuildMsg(MHeartbeatReq, nil, seq, RecoveryTS(1))
	if _, err := e.probe.WriteToUDP(b, e.UPF); err != nil {
		return err
	}
	buf := make([]byte, 2048)
	deadline := time.Now().Add(timeout)
	for {
		e.probe.SetReadDeadline(deadline)
		n, _, err := e.probe.ReadFromUDP(buf)
		if err != nil {
			return ErrNoHeartbeat
		}
		m, err := ParseMsg(buf[:n])
		if err == nil && m.Type == MHeartbeatRsp && m.Seq == seq {
			return nil
		}
	}
}

// Heartbeat sends a probe and waits up to a generous wall-clock budget; used
// as the liveness monitor (a non-answer is only trusted when the server has
// demonstrably died or after repeated probes).
func (e *Env) Heartbeat() error {
	for i := 0; i < 4; i++ {
		if e.heartbeat(time.Duration(250*(i+1)) * time.Millisecond) == nil {
			return nil
		}
		if FatalCount() > 0 {
			return ErrNoHeartbeat
		}
	}
	return ErrNoHeartbeat
}

// Barrier waits until everything sent or injected before it has been consumed
// by the event loop: queues empty, then a heartbeat round trip, then queues
// still empty.
func (e *Env) Barrier() error {
	deadline := time.Now().Add(20 * time.Second)
	for {
		for {
			r, s, t := e.Srv.VerifQueueLens()
			if r == 0 && s == 0 && t == 0 {
				break
			}
			if FatalCount() > 0 {
				e.Dead = true
				return ErrNoHeartbeat
			}
			if time.Now().After(deadline) {
				return ErrWatchdog
			}
			runtime.Gosched()
			time.Sleep(20 * time.Microsecond)
		}
		if err := e.Heartbeat(); err != nil {
			e.Dead = true
			return err
		}
		r, s, t := e.Srv.VerifQueueLens()
		if r == 0 && s == 0 && t == 0 {
			return nil
		}
	}
}

// Stop stops the server and joins its goroutines (watchdog 15 s).
func (e *Env) Stop() error {
	if e.probe != nil {
		e.probe.Close()
	}
	e.Srv.Stop()
	done := make(chan struct{})
	go func() { e.wg.Wait(); close(done) }()
	select {
	case <-done:
		return nil
	case <-time.After(15 * time.Second):
		return ErrWatchdog
	}
}

// ---- simulated SMF ----

type Datagram struct {
	T    int64
	From *net.UDPAddr
	Sock int // index of the receiving socket within the SMF
	B    []byte
	M    *PMsg
}

// ReportAction tells the SMF reader how to answer a Session Report Request.
type ReportAction struct {
	Ignore bool
	SEID   uint64 // header SEID of the response
	Twice  bool
	Via    *SMF // answer from another node's socket
}

type SMF struct {
	Idx   int
	IP    net.IP
	Socks []*net.UDPConn // [0] is IP:8805
	upf   *net.UDPAddr
	seq   uint32

	mu      sync.Mutex
	rsp     chan *Datagram
	Reports []*Datagram // every Session Report Request received (incl. retransmissions)
	All     []*Datagram
	// OnReport decides the answer to a Session Report Request. nil = ignore.
	OnReport func(d *Datagram) ReportAction
	wg       sync.WaitGroup
	closed   int32
}

// NewSMF binds 127.B.1.idx:8805 (+ extra sockets on ephemeral ports).
func NewSMF(idx int, upf *net.UDPAddr, extraSocks int) (*SMF, error) {
	s := &SMF{Idx: idx, IP: IP(1, idx), upf: upf, rsp: make(chan *Datagram, 8192), seq: uint32(idx) << 16}
	for i := 0; i <= extraSocks; i++ {
		port := 8805
		if i > 0 {
			port = 0
		}
		c, err := net.ListenUDP("udp4", &net.UDPAddr{IP: s.IP, Port: port})
		if err != nil {
			s.Close()
			return nil, err
		}
		c.SetReadBuffer(8 << 20)
		s.Socks = append(s.Socks, c)
		s.wg.Add(1)
		go s.reader(i, c)
	}
	return s, nil
}

func (s *SMF) reader(idx int, c *net.UDPConn) {
	defer s.wg.Done()
	buf := make([]byte, 65536)
	for {
		n, from, err := c.ReadFromUDP(buf)
		if err != nil {
			return
		}
		d := &Datagram{T: Tick(), From: from, Sock: idx, B: append([]byte{}, buf[:n]...)}
		d.M, _ = ParseMsg(d.B)
		s.mu.Lock()
		s.All = append(s.All, d)
		isRep := d.M != nil && d.M.Type == MRepReq
		if isRep {
			s.Reports = append(s.Reports, d)
		}
		on := s.OnReport
		s.mu.Unlock()
		if isRep {
			if on != nil {
				a := on(d)
				if !a.Ignore {
					seid := a.SEID
					b := BuildMsg(MRepRsp, &seid, d.M.Seq, Cause(CauseAccepted))
					out := c
					if a.Via != nil {
						out = a.Via.Socks[0]
					}
					out.WriteToUDP(b, s.upf)
					if a.Twice {
						out.WriteToUDP(b, s.upf)
					}
				}
			}
			continue
		}
		select {
		case s.rsp <- d:
		default:
		}
	}
}

func (s *SMF) NextSeq() uint32 {
	s.seq++
	return s.seq & 0xffffff
}

func (s *SMF) SendFrom(sock int, b []byte) {
	s.Socks[sock].WriteToUDP(b, s.upf)
}

// Drain discards pending responses.
func (s *SMF) Drain() {
	for {
		select {
		case <-s.rsp:
		default:
			return
		}
	}
}

// WaitRsp waits for a response datagram with the given sequence number.
// Other datagrams arriving meanwhile are returned in extra.
func (s *SMF) WaitRsp(seq uint32, timeout time.Duration) (got *Datagram, extra []*Datagram) {
	t := time.NewTimer(timeout)
	defer t.Stop()
	for {
		select {
		case d := <-s.rsp:
			if d.M != nil && d.M.Seq == seq {
				return d, extra
			}
			extra = append(extra, d)
		case <-t.C:
			return nil, extra
		}
	}
}

// Pending returns whatever has arrived and not been consumed.
func (s *SMF) Pending() []*Datagram {
	var out []*Datagram
	for {
		select {
		case d := <-s.rsp:
			out = append(out, d)
		default:
			return out
		}
	}
}

func (s *SMF) ReportsSnapshot() []*Datagram {
	s.mu.Lock()
	defer s.mu.Unlock()
	return append([]*Datagram{}, s.Reports...)
}

func (s *SMF) SetOnReport(f func(d *Datagram) ReportAction) {
	s.mu.Lock()
	s.OnReport = f
	s.mu.Unlock()
}

// Drops reads the per-socket drop counter of the SMF's sockets from /proc/net/udp.
func (s *SMF) Drops() int {
	data, err := os.ReadFile("/proc/net/udp")
	if err != nil {
		return 0
	}
	total := 0
	for _, c := range s.Socks {
		la := c.LocalAddr().(*net.UDPAddr)
		ip := la.IP.To4()
		key := fmt.Sprintf("%02X%02X%02X%02X:%04X", ip[3], ip[2], ip[1], ip[0], la.Port)
		for _, line := range strings.Split(string(data), "\n") {
			f := strings.Fields(line)
			if len(f) >= 13 && f[1] == key {
				var d int
				fmt.Sscanf(f[len(f)-1], "%d", &d)
				total += d
			}
		}
	}
	return total
}

func (s *SMF) Close() {
	if !atomic.CompareAndSwapInt32(&s.closed, 0, 1) {
		return
	}
	for _, c := range s.Socks {
		c.Close()
	}
	s.wg.Wait()
}
