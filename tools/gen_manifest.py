#!/usr/bin/env python3
"""Regenerates /verif/MANIFEST.json from the table below (single source of truth for the
per-check texts). Run after adding a check:  python3 tools/gen_manifest.py"""
import json, os

VERIF = os.path.dirname(os.path.dirname(os.path.abspath(__file__)))

# id -> (level, technique, level text, level note)
T = {
 "C01": ("fault_enumeration",
         "online reference-model monitor on the driver-call tap + exhaustive single-fault injection per driver-call position",
         "Real PFCP server driven over UDP by simulated SMFs; every forwarder.Driver call is checked against a reference rule-set model and the data-plane table is compared with the model at every quiescent point; each history is re-executed once per driver-call position x {fail-not-applied, fail-applied} (+ seeded multi-fault plans). Three data planes: model, model without final reports on URR removal, and the real gtp5g driver over the simulated kernel (rule table = the kernel's); half of the histories use rule ids spread over each id's range; histories include take-over IEs naming the node's own id and late (SEID-0) answers to unanswered report requests. Decides the property on the histories and fault positions executed.",
         "Reference model and model data plane are harness code; data-plane semantics (EEXIST/ENOENT, lost-ack) are assumptions listed in evidence."),
 "C02": ("exploration",
         "reference IE->netlink-attribute translator compared with requests captured at a simulated gtp5g kernel; permutation metamorphic check",
         "Generated Create/Update PDR/FAR IEs go through the real gtp5g driver over a simulated netlink kernel; the captured attribute tree is compared (multiset equality per nesting level) with an independent translation of the IE, in canonical and permuted child order.",
         "go-gtp5gnl attribute numbering and go-nl are the definition of the kernel interface; the reference translator is harness code (Appendix A of DESIGN.md)."),
 "C03": ("exploration",
         "reference IE->netlink-attribute translator + perio registration-set model, requests captured at a simulated gtp5g kernel",
         "As C02 for QER/URR/BAR; in addition the set of URRs the real perio server has registered (and queries on an injected tick) is compared with the set of live PERIO URRs and their periods, after creates, updates and removals (a third of the removals refused by the simulated kernel).",
         "As C02; tick injection uses a build-tagged hook that posts the same event a ticker posts."),
 "C04": ("exploration",
         "reference SEID-allocator model + structural invariants on state snapshots at quiescence; lookups by every SEID class",
         "Random establish/delete/re-associate/SEID-0 histories over several SMFs with Modification/Deletion/Report-Response lookups by 0, live, released, beyond-table, >=2^63 and 2^64-1 SEIDs; the allocator model is stepped by the observed responses, slot/free-list invariants are checked on hook snapshots. Every history is re-run with injected data-plane faults (removals refused during tear-down, failing creates/updates/queries) and with unanswered Session Report Requests running out of retries or answered late (SEID 0) after other requests / after the session's deletion; churn bursts free several SEIDs at once; a sixth of the histories runs on the real gtp5g driver.",
         "Snapshots are read while the event loop is idle (after a heartbeat barrier); model data plane is harness code."),
 "C05": ("exploration",
         "per-request attribution of driver calls + before/after snapshot diff of all other sessions",
         "Histories with colliding rule ids and CP-SEIDs across peers; while a request for session S is processed every driver call must carry S's SEID and every other session's snapshot (rules, UR-SEQN counters, queues, data-plane rules) must be unchanged; re-association and SEID-0 removal sets are compared with the model; a re-issued SEID must not start with rules of an ended session. Histories are re-run with refused removals / failing creates, with report requests given up after all retries or answered late with SEID 0; a sixth runs on the real gtp5g driver over the simulated kernel, where periodic ticks are injected into the real periodic server: every periodic report must belong to a URR of the session it is delivered under that asked for that period, and every such URR is read out once.",
         "As C04."),
 "C06": ("exploration",
         "at-most-once table model over recorded datagrams, bounded-exhaustive event orders with injected retention expiries",
         "All orders (to a depth) of first copies, duplicates and injected RX-timer expiries over request instances from peers with equal sequence numbers; duplicates must cause no driver call / snapshot change and be answered byte-identically; after expiry bookkeeping must be gone and the next copy executed as new. Half of the random sequences add UPF-initiated requests with the same address-sequence identifier (report / tx expiry / answer events): the two transaction tables must not disturb each other.",
         "Expiry is injected through the exported NotifyTransTimeout (real timers set to 1 h); transaction tables read through a hook at quiescence."),
 "C07": ("exploration",
         "structure-aware datagram fuzzing with fatal-exit/panic capture, heartbeat liveness probe and untouched-session snapshot diff",
         "Valid prefix, then mutated datagrams of every dispatched type from associated and unknown peers, against the no-op and the real gtp5g driver (over a simulated kernel); monitors: logrus Fatal hook, process exit, checkptr, heartbeat answer, snapshot of unaddressed sessions (a third node's and the sender's own); hostile messages also carry well-formed SDF Filter IEs whose flow description is invalid text (cut after a token, tokens missing/doubled/out of range).",
         "Crash signatures are bucketed by panic class + first go-upf frame; known findings listed in KNOWN_FINDINGS.txt."),
 "C08": ("exploration",
         "response-correlation monitor over the datagram log + snapshot diff for rejected/unanswered requests",
         "Every response must come back to the request's source socket with its sequence number and the peer's SEID (0 with cause 65 for unknown sessions); accepted Establishment Responses must carry node id and a UP F-SEID that addresses the session; error/unanswered requests must leave driver log and snapshot unchanged; an Establishment Response must not hand out a UP F-SEID another live session holds; one recovery time stamp per server; histories include retransmissions, second sockets, take-over, re-association and churn bursts (several deletions, then as many establishments).",
         "As C04."),
 "C09": ("exploration",
         "TX-transaction model over recorded datagrams with injected timer expiries, bounded-exhaustive + random event orders; real-timer cases racing a queued expiry against the answer (goroutine-dump witness when transaction handling blocks for ever)",
         "Reports injected for several sessions/peers; TX expiries injected at chosen points; responses scripted (matching, duplicate, wrong peer, wrong sequence); checks distinct outstanding wire sequence numbers (also across 2^24 and 2^32), byte-identical retransmissions, retry bound, stop on response, release of bookkeeping. Real-timer cases (15-40 ms) hold the loop in a gated driver call until expiries and answers are both queued, release it, and require on the wire that nothing is retransmitted after the UPF has handled the answer (marker heartbeat on the same socket).",
         "Counter positioned through a build-tagged hook; expiry injected through the exported NotifyTransTimeout."),
 "C10": ("exploration",
         "conservation check with uniquely valued reports from a simulated kernel to the SMF sockets",
         "Kernel-side reports (multicast REPORT, periodic, query/update/remove/dissociation results) carry unique counters; every Usage Report IE at an SMF must map back to exactly one kernel report with all fields equal and measurement IEs selected by the URR's current method/MNOP (partial Update URR included); reports for unknown sessions/URRs must be absent and the rest of the batch present; PFCP-level histories with take-over check that every report request reaches the current owner; a third of the URR removals is refused by the simulated kernel (the URR stays known and reported).",
         "Simulated kernel semantics are assumptions listed in evidence."),
 "C11": ("exploration",
         "per-URR-incarnation counter model over datagrams in arrival order; porcupine linearizability check of concurrent histories",
         "UR-SEQN values per (session, URR incarnation) over all three carriers must be 0,1,2,... in arrival order at the owning SMF socket (sequential histories on two data-plane variants); concurrent histories (query clients, notification and multicast producers on the full stack) are checked for linearizability against a per-URR fetch-and-increment model with porcupine. Histories include refused removals, failed usage queries, report requests that are never answered and given up after their last retry (the counter must not move), and - on the real driver - periodic ticks whose reports continue each URR's numbering.",
         "Loopback UDP preserves order between one sender and one receiver socket; drops are detected via /proc/net/udp."),
 "C12": ("exploration",
         "reference PDR<->URR association model (derived from current lists) compared with TERMR/IMMER reports per response",
         "Single-session histories of Create/Update/Remove PDR with arbitrary URR lists, Create/Remove/Query URR and deletion; the set of URRs that must report with TERMR (resp. IMMER) in each response is derived from the model and compared with the observed reports, each exactly once. Every history is re-run with 1-2 removals refused by the data plane (the PDR / URR then stays, with its associations) and with a usage query that fails (no report owed by that URR in that response); a sixth of the histories runs on the real gtp5g driver.",
         "Model data plane returns one report per query/removal of an existing URR and an error otherwise."),
 "C13": ("exploration",
         "per (session incarnation, PDR) FIFO model with unique payloads, observed at simulated gNB sockets",
         "BUFFER multicasts with unique payloads, FAR apply-action transitions (incl. the first tunnel arriving with the switch to FORW, permuted IE order, and updates the kernel refuses), PDR/session removal, SEID re-use and take-over against the real driver over the simulated kernel; released packets must be exactly the queued ones, once, in order, to the FAR's peer/TEID/QFI; none after drop or session end; downlink-data reports iff NOCP, to the current owner.",
         "Simulated kernel computes FAR/QER<->PDR relations like gtp5g; GTP-U decoded by the independent decoder of C14."),
 "C14": ("exploration",
         "independent GTP-U / PDU-session-container decoder over encoder output (exhaustive QFI x PDU type core) and over datagrams written by the real Gtp5g.WritePacket in sequences",
         "All QFI 0..63 x PDU type 0..15 x with/without container x boundary TEIDs x payload lengths (thorough: every length 0..1500) decoded by an independent decoder written from TS 29.281 / TS 38.415. Sequences of 4-14 packets (lengths up and down, with/without QoS flow, changing TEIDs) go through the real Gtp5g.WritePacket to a UDP listener and are decoded by the same decoder; every second packet first goes the way a buffered packet takes (BUFFER netlink message, buffering listener, hand-over); C13 exercises the same path end to end.",
         "Decoder is harness code written from the specifications."),
 "C15": ("exploration",
         "registered-set model per period against the real perio server with injected ticks; ticker-goroutine census; exactly-once delivery under a token-gated busy consumer",
         "Random add/remove histories over sessions, URRs and periods against the real perio.Server; every injected tick must query exactly the model set, deliver each report once marked PERIO; ticker goroutines must match non-empty periods and vanish on Close; driver level: batch union/size at the simulated kernel, with a third of the removals refused by the kernel; a few cases with real 1 s / 2 s tickers (bounded progress).",
         "Tick injection via build-tagged hook; goroutine census by runtime stack scan."),
 "C16": ("exploration",
         "grammar-based generator + independent reference parser; round trip through the packed netlink form; fault-freedom on junk",
         "Generated IPFilterRule strings are parsed by ParseFlowDesc and by a reference parser; the packed form captured at the simulated kernel is decoded with gtp5gnl.DecodeFlowDesc and compared (swapped for uplink); junk strings must not fault.",
         "Reference parser is harness code."),
 "C17": ("exploration",
         "Go race detector + panic capture + goroutine census after Stop + exactly-once accounting (injected and kernel-issued periodic reports) under randomized stress",
         "Full stack under -race with 2-4 SMFs, concurrent report producers, millisecond timers and tickers and a Stop at a seeded point through the real shutdown path.",
         "Race reports are attributed by the innermost non-runtime frame of each access; schedules not produced are not decided."),
 "C18": ("exploration",
         "closed-system progress monitor with deadlock witnesses from goroutine dumps (nil-channel block, wait-for cycle, loop blocked outside its select in two dumps)",
         "Session/URR counts and report bursts swept across the internal queue capacities with bulk removals; plus real-ticker scenarios, late answers to a report burst while the loop is busy (real retransmission timers) and more buffered-packet notifications for one PDR than its queue holds; held = all obligations complete; violated = no progress AND a witness: the loop blocked on a nil channel, a wait-for cycle among go-upf goroutines, or the loop blocked at the same frame outside its select in two dumps.",
         "Liveness restated as bounded progress / deadlock witness (DESIGN.md §4 C18)."),
 "C19": ("exploration",
         "exhaustive enumeration of flag words against tables transcribed from TS 29.244",
         "All 2^8/2^16 apply-action values, 2^16 two-octet and (thorough) all 2^24 three-octet reporting-trigger values, (thorough) all 2^22 usage-report-trigger words, SetReportingTrigger per bit, 64 volume-measurement flag subsets, too-short inputs.",
         "Tables transcribed from TS 29.244 are the reference."),
 "C20": ("exploration",
         "independent validity predicate over mutated YAML documents; version window through a simulated kernel",
         "ReadConfig on single-fault (exhaustive) and multi-fault (random) mutations of a valid document: accepted => valid by an independent predicate (incl. a node id that is an IPv4 literal or resolvable name, not an IPv6 literal) and values unchanged; real checkVersion against GET_VERSION answers around both bounds.",
         "Predicate deliberately broad (only clear cases alarm)."),
}

IMPLEMENTED = ["C01", "C02", "C03", "C04", "C05", "C06", "C07", "C08", "C09", "C10", "C11", "C12", "C13", "C14", "C15", "C16", "C17", "C18", "C19", "C20"]

def main():
    checks = []
    na = []
    for cid in sorted(T):
        level, tech, text, note = T[cid]
        if cid in IMPLEMENTED:
            checks.append({
                "property_id": cid,
                "quick_cmd": "./check %s quick" % cid,
                "thorough_cmd": "./check %s thorough" % cid,
                "evidence_file": "evidence/%s.json" % cid,
                "replay_cmd_template": "./check %s --replay {path}" % cid,
                "engine": "vrun",
                "level_claimed": {"category": level, "text": text, "design_ref": "DESIGN.md §4 " + cid},
                "level_note": note,
                "technique": tech,
            })
        else:
            na.append({"property_id": cid, "reason": "check not built yet in this round (planned: DESIGN.md §4 %s); no verdict is claimed" % cid})
    m = {
        "version": 1,
        "setup_cmd": "./check --setup",
        "hooks": {
            "guard": "verif",
            "enable": "go build -tags verif -overlay build/<h>/overlay.json (hook files live in /verif/harness/hooks and are overlaid into the packages at build time; nothing is committed to /repo)",
            "baseline_off_cmd": "sh tools/baseline_off.sh",
            "source_commits": [],
            "add_only": True,
        },
        "engines": [{"name": "vrun", "path": "harness/cmd/vrun", "serves_properties": IMPLEMENTED,
                     "kind_free_text": "Go workload+monitor binary built inside the go-upf module through a build overlay; orchestrated by tools/vcheck.py"}],
        "checks": checks,
        "not_applicable": na,
        "notes": "Technique family: runtime monitoring. See DESIGN.md. Known findings: KNOWN_FINDINGS.txt.",
    }
    with open(os.path.join(VERIF, "MANIFEST.json"), "w") as fh:
        json.dump(m, fh, indent=1)
        fh.write("\n")

if __name__ == "__main__":
    main()
