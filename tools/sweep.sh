#!/bin/sh
# usage: tools/sweep.sh quick|thorough "1 2 3" [checks...]  — runs checks at several seeds, prints one line per run
TIER=${1:-quick}; SEEDS=${2:-"1 2 3 7 42"}; shift 2 2>/dev/null
CHECKS=${*:-"C01 C02 C03 C04 C05 C06 C07 C08 C09 C10 C11 C12 C13 C14 C15 C16 C17 C18 C19 C20"}
cd "$(dirname "$0")/.." || exit 2
for s in $SEEDS; do for c in $CHECKS; do
  out=$(VERIF_SEED=$s ./check $c $TIER 2>&1); rc=$?
  echo "seed=$s rc=$rc $(echo "$out" | tail -1 | cut -c1-160)"
  if [ $rc -ne 0 ]; then echo "$out" | grep -E "VIOLATION|INCONCLUSIVE|KNOWN" | head -5 | cut -c1-400; fi
done; done
