#!/usr/bin/env python3
# validates MANIFEST.json and every evidence file against the schemas (python3-vt has jsonschema)
import json, glob, sys, jsonschema
m=json.load(open('/verif/MANIFEST.json')); s=json.load(open('/root/.vp/MANIFEST.schema.json'))
jsonschema.validate(m,s); print("manifest ok: %d checks, %d n/a" % (len(m['checks']), len(m.get('not_applicable',[]))))
es=json.load(open('/root/.vp/EVIDENCE.schema.json'))
for f in sorted(glob.glob('/verif/evidence/*.json')):
    jsonschema.validate(json.load(open(f)), es); print("ok", f)
