#!/bin/sh
# usage: tools/neutral_verify.sh <patch.diff> [CHECK...]  - applies a behaviour-preserving change to a scratch copy of /repo
# and runs the given checks (default: all 20, quick) against it; any VIOLATION here is a false alarm of the machinery.
set -u
P=$(realpath "$1"); shift
CHECKS=${*:-"C01 C02 C03 C04 C05 C06 C07 C08 C09 C10 C11 C12 C13 C14 C15 C16 C17 C18 C19 C20"}
D=$(mktemp -d /tmp/vneu.XXXXXX)
trap 'rm -rf "$D"' EXIT
git -C /repo archive HEAD | tar -x -C "$D"
(cd "$D" && patch -p1 -s < "$P") || { echo "PATCH DOES NOT APPLY: $P"; exit 2; }
cd /verif
for C in $CHECKS; do
  o=$(VERIF_REPO="$D" ./check $C quick 2>&1); rc=$?
  echo "$(basename $P) $C rc=$rc $(echo "$o" | tail -1 | cut -c1-120)"
  [ $rc -ne 0 ] && echo "$o" | grep -E "VIOLATION|BUILD" | head -4 | cut -c1-500
done
rm -rf /verif/build/$(python3 -c "import hashlib,os;print(hashlib.sha1(os.path.abspath('$D').encode()).hexdigest()[:8])")
