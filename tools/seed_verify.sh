#!/bin/sh
# usage: tools/seed_verify.sh <worktree> <name> <CHECK> [more checks...]
# Verifies a seeded change delivered in <worktree> (patch.diff, demo test, meta.json) in a fresh scratch copy:
#  compiles, existing tests pass, demo fails with / passes without the change; then runs the given checks
#  against the patched copy. Stores everything under /verif/seeded/<name>/. Removes the scratch copies.
set -u
WT=$1; NAME=$2; shift 2
export GOFLAGS=-mod=mod GOPROXY=off GOSUMDB=off GOTOOLCHAIN=local
OUT=/verif/seeded/$NAME; mkdir -p "$OUT"
DEMO=$(python3 -c "import json;print(json.load(open('$WT/meta.json'))['demo_path'])")
RUN=$(python3 -c "import json;print(json.load(open('$WT/meta.json'))['how_run'])")
cp "$WT/patch.diff" "$OUT/patch.diff"; cp "$WT/$DEMO" "$OUT/$(basename $DEMO)"; cp "$WT/meta.json" "$OUT/meta.agent.json"
A=$(mktemp -d /tmp/vseedA.XXXXXX); B=$(mktemp -d /tmp/vseedB.XXXXXX)
trap 'rm -rf "$A" "$B"' EXIT
git -C /repo archive HEAD | tar -x -C "$A"; git -C /repo archive HEAD | tar -x -C "$B"
(cd "$A" && git init -q . 2>/dev/null; patch -p1 -s < "$OUT/patch.diff") || { echo "PATCH DOES NOT APPLY"; exit 1; }
cp "$OUT/$(basename $DEMO)" "$A/$DEMO"; cp "$OUT/$(basename $DEMO)" "$B/$DEMO"
RUNCMD=$(echo "$RUN" | sed 's/export [^;]*;//; s/^ *//; s/   *(.*$//')
build=fail; (cd "$A" && go build ./... ) && build=ok
suite=fail; (cd "$A" && mv "$DEMO" /tmp/demo.$$ && go test -count=1 ./internal/pfcp/ ./internal/report/ ./internal/gtpv1/ ./internal/forwarder/perio/ >/dev/null 2>&1 && go test -count=1 -run 'TestParseFlowDesc|Test_convertSlice' ./internal/forwarder/ >/dev/null 2>&1; r=$?; mv /tmp/demo.$$ "$DEMO"; exit $r) && suite=ok
with=pass; (cd "$A" && sh -c "$RUNCMD" >/tmp/demoA.$$ 2>&1) || with=fail
without=pass; (cd "$B" && sh -c "$RUNCMD" >/tmp/demoB.$$ 2>&1) || without=fail
echo "build=$build existing_suite=$suite demo_with_change=$with demo_without_change=$without"
rm -f /tmp/demoA.$$ /tmp/demoB.$$
RES=""
for C in "$@"; do
  o=$(cd /verif && VERIF_REPO="$A" ./check $C quick 2>&1); rc=$?
  n=$(echo "$o" | grep -c "^VIOLATION")
  s=$(echo "$o" | grep "^VIOLATION" | sed 's/.*sig=\([^ ]*\) .*/\1/' | sort -u | head -6 | tr '\n' ' ')
  echo "check $C quick: rc=$rc violations=$n sigs: $s"
  RES="$RES{\"check\":\"$C\",\"tier\":\"quick\",\"rc\":$rc,\"violation_lines\":$n,\"signatures\":\"$s\"},"
done
H=$(python3 -c "import hashlib,os;print(hashlib.sha1(os.path.abspath('$A').encode()).hexdigest()[:8])"); rm -rf /verif/build/$H
python3 - "$OUT" "$build" "$suite" "$with" "$without" "[${RES%,}]" <<'PY'
import json,sys
out,build,suite,w,wo,res=sys.argv[1:7]
m=json.load(open(out+'/meta.agent.json'))
meta={"property":m.get("property"),"summary":m.get("summary"),"needs":m.get("needs"),"files_changed":m.get("files_changed"),
      "demo":m.get("demo_path"),"demo_cmd":m.get("how_run"),
      "verified":{"go_build":build,"existing_suite":suite,"demo_with_change":w,"demo_without_change":wo,
                  "how":"fresh `git archive HEAD` copies of /repo with and without patch.diff; baseline packages re-run; demo run in both"},
      "checks_run":json.loads(res)}
json.dump(meta,open(out+'/meta.json','w'),indent=1)
PY
