#!/bin/sh
# Runs the repository's own test suite on plain /repo (no overlay, no verif tag):
# the hooks are overlay files that do not exist in a normal build.
export GOFLAGS=-mod=mod GOPROXY=off GOSUMDB=off GOTOOLCHAIN=local
cd "${VERIF_REPO:-/repo}" && go test -json -vet=off -count=1 -timeout 25m ./...
