#!/bin/sh
# usage: tools/mutant.sh <patch.diff> <CHECK> [tier]   — applies the patch to a scratch copy of /repo
# (outside /repo and /verif), runs the check against it via VERIF_REPO, removes the copy.
set -e
P=$(realpath "$1"); C=$2; T=${3:-quick}
D=$(mktemp -d /tmp/vmut.XXXXXX)
trap 'rm -rf "$D"' EXIT
git -C /repo archive HEAD | tar -x -C "$D"
(cd "$D" && patch -p1 -s < "$P")
cd /verif && VERIF_REPO="$D" VERIF_KEEP=0 ./check "$C" "$T" | tail -${LINES_OUT:-4}
rm -rf /verif/build/$(python3 -c "import hashlib,os;print(hashlib.sha1(os.path.abspath('$D').encode()).hexdigest()[:8])")
