#!/usr/bin/env python3
"""Orchestrator of the /verif runtime-monitoring checks (see DESIGN.md §3, §8).

  ./check --setup
  ./check <ID> quick|thorough [--replay <path>]

Builds the harness inside the go-upf module through a build overlay (nothing is
written under the repository), runs worker processes, recovers from process
faults, merges what the monitors observed into evidence/<ID>.json and maps
violations to VIOLATION / KNOWN-FINDING lines.
"""
import json, os, sys, subprocess, time, hashlib, shutil, re, glob, signal

VERIF = os.path.dirname(os.path.dirname(os.path.abspath(__file__)))
REPO = os.environ.get("VERIF_REPO", "/repo")
SEED = int(os.environ.get("VERIF_SEED", "1") or "1")
NCPU = os.cpu_count() or 4

ENV = dict(os.environ)
ENV.update({"GOFLAGS": "-mod=mod", "GOPROXY": "off", "GOSUMDB": "off", "GOTOOLCHAIN": "local",
            "GONOSUMDB": "*", "GONOSUMCHECK": "1", "GOFLAGS": "-mod=mod"})

HOOKS = {
    "internal/pfcp/zz_verif_hooks.go": "harness/hooks/pfcp/zz_verif_hooks.go",
    "internal/forwarder/zz_verif_hooks.go": "harness/hooks/forwarder/zz_verif_hooks.go",
    "internal/forwarder/buffnetlink/zz_verif_hooks.go": "harness/hooks/buffnetlink/zz_verif_hooks.go",
    "internal/forwarder/perio/zz_verif_hooks.go": "harness/hooks/perio/zz_verif_hooks.go",
    "pkg/app/zz_verif_hooks.go": "harness/hooks/app/zz_verif_hooks.go",
}

# per-check configuration: flavour F (checkptr) or R (race detector); worker counts; time limits (s)
CHECKS = {}


def chk(cid, level, flavour="F", wq=8, wt=16, tq=600, tt=3600, floor=10, design=""):
    CHECKS[cid] = dict(level=level, flavour=flavour, wq=wq, wt=wt, tq=tq, tt=tt, floor=floor, design=design)


chk("C01", "fault_enumeration")
chk("C02", "exploration")
chk("C03", "exploration")
chk("C04", "exploration")
chk("C05", "exploration")
chk("C06", "exploration")
chk("C07", "exploration")
chk("C08", "exploration")
chk("C09", "exploration")
chk("C10", "exploration")
chk("C11", "exploration")
chk("C12", "exploration")
chk("C13", "exploration")
chk("C14", "exploration")
chk("C15", "exploration")
chk("C16", "exploration")
chk("C17", "exploration", flavour="R", wq=8, wt=12)
chk("C18", "exploration", wq=4, wt=8, floor=5)
chk("C19", "exploration")
chk("C20", "exploration", wq=4, wt=8)


# counters that a complete run must have moved: a monitor whose hook was never reached has decided nothing
# ("observed nothing" is inconclusive, never "held"). All of them are in the hundreds or more per quick run.
REQUIRED = {
    "C01": ["histories_on_real_driver", "histories_with_wide_rule_ids", "fault_executions"],
    "C04": ["refused_removals", "fault_plans", "sessions_established", "negative_responses", "late_answers_to_report_requests"],
    "C05": ["refused_removals", "fault_plans", "sessions_established", "late_answers_to_report_requests", "periodic_ticks_on_the_real_driver"],
    "C06": ["duplicates_in_window", "copies_after_the_real_window", "tx_events_on_an_id_shared_with_a_retained_request"],
    "C07": ["hostile_datagrams", "unaddressed_sessions_of_the_sender_checked"],
    "C09": ["retransmissions", "answered", "abandoned", "real_timer_requests",
            "stale_expiries_observed(answer_handled_before_the_queued_expiry)"],
    "C10": ["kernel_reports", "usage_report_ies", "refused_urr_removals", "history_report_requests"],
    "C11": ["usage_report_ies", "refused_removals", "concurrent_operations", "report_requests_given_up_after_all_retries(steps)", "periodic_reports_from_ticks"],
    "C12": ["termination_reports", "immediate_reports", "refused_removals"],
    "C13": ["gtpu_packets", "buffer_notifications", "release_transitions_with_packets", "refused_release_transitions_with_packets"],
    "C14": ["writer_datagrams", "writer_datagrams_through_the_buffering_listener"],
    "C15": ["ticks", "netlink_batches", "removals_refused_by_the_kernel", "real_ticks_observed"],
    "C17": ["events_injected", "report_requests_seen", "accounted_reports"],
    "C18": ["requests", "report_requests_seen"],
}


def bdir():
    h = hashlib.sha1(os.path.abspath(REPO).encode()).hexdigest()[:8]
    d = os.path.join(VERIF, "build", h)
    os.makedirs(d, exist_ok=True)
    return d


def gen_overlay():
    d = bdir()
    rep = {}
    for dst, src in HOOKS.items():
        rep[os.path.join(REPO, dst)] = os.path.join(VERIF, src)
    for sub, pkg in (("harness/vh", "internal/verif/vh"), ("harness/cmd/vrun", "internal/verif/cmd/vrun")):
        for f in sorted(glob.glob(os.path.join(VERIF, sub, "*.go"))):
            rep[os.path.join(REPO, pkg, os.path.basename(f))] = f
    ov = os.path.join(d, "overlay.json")
    with open(ov, "w") as fh:
        json.dump({"Replace": rep}, fh, indent=1)
    gm = os.path.join(d, "gomod")
    os.makedirs(gm, exist_ok=True)
    mod = open(os.path.join(REPO, "go.mod")).read()
    if "anishathalye/porcupine" not in mod:
        mod += "\nrequire github.com/anishathalye/porcupine v1.3.0\n"
    with open(os.path.join(gm, "go.mod"), "w") as fh:
        fh.write(mod)
    shutil.copy(os.path.join(REPO, "go.sum"), os.path.join(gm, "go.sum"))
    return ov, os.path.join(gm, "go.mod")


def build(flavour):
    ov, modfile = gen_overlay()
    out = os.path.join(bdir(), "vrun-" + flavour)
    cmd = ["go", "build", "-overlay", ov, "-modfile", modfile, "-tags", "verif", "-o", out]
    if flavour == "R":
        cmd += ["-race"]
    else:
        cmd += ["-gcflags=all=-d=checkptr"]
    cmd += ["./internal/verif/cmd/vrun"]
    t0 = time.time()
    p = subprocess.run(cmd, cwd=REPO, env=ENV, stdout=subprocess.PIPE, stderr=subprocess.STDOUT, text=True)
    if p.returncode != 0:
        sys.stderr.write(p.stdout)
        sys.stderr.write("BUILD FAILED (%s) in %.1fs\n" % (flavour, time.time() - t0))
        return None
    return out


def load_known():
    known = []
    p = os.path.join(VERIF, "KNOWN_FINDINGS.txt")
    if os.path.exists(p):
        for line in open(p):
            line = line.strip()
            m = re.match(r"open:\s+property=(\S+)\s+sig=(\S+)\s+(.*)", line)
            if m:
                known.append((m.group(1), m.group(2), m.group(3)))
    return known


def sig_matches(pattern, sig):
    # exact match, or glob-free prefix match when the pattern ends with '*'
    if pattern.endswith("*"):
        return sig.startswith(pattern[:-1])
    return pattern == sig


def run_workers(cid, tier, binpath, cfg, outdir, only=None):
    workers = cfg["wt"] if tier == "thorough" else cfg["wq"]
    workers = int(os.environ.get("VERIF_WORKERS", workers))
    workers = max(1, min(workers, NCPU))
    if only is not None:
        workers = 1
    limit = cfg["tt"] if tier == "thorough" else cfg["tq"]
    replaydir = os.path.join(VERIF, "out", cid)
    procs = {}
    crashes = []
    faults = []

    def start(w, frm=0):
        args = [binpath, cid.lower(), "-tier", tier, "-seed", str(SEED), "-worker", str(w), "-workers", str(workers),
                "-out", outdir, "-replaydir", replaydir, "-from", str(frm)]
        if only is not None:
            args += ["-only", str(only)]
        env = dict(ENV)
        env["GOTRACEBACK"] = "all"
        if cfg["flavour"] == "R":
            env["GORACE"] = "halt_on_error=0 log_path=%s" % os.path.join(outdir, "race-w%d" % w)
        log = open(os.path.join(outdir, "w%d.log" % w), "ab")
        p = subprocess.Popen(args, stdout=log, stderr=subprocess.STDOUT, env=env, cwd=VERIF, start_new_session=True)
        procs[w] = (p, log)

    t0 = time.time()
    for w in range(workers):
        start(w)
    restarts = {w: 0 for w in range(workers)}
    timed_out = False
    while procs:
        time.sleep(0.05)
        for w in list(procs):
            p, log = procs[w]
            rc = p.poll()
            if rc is None:
                if time.time() - t0 > limit:
                    timed_out = True
                    try:
                        os.killpg(p.pid, signal.SIGQUIT)
                    except Exception:
                        pass
                    time.sleep(0.5)
                    try:
                        os.killpg(p.pid, signal.SIGKILL)
                    except Exception:
                        pass
                    p.wait()
                    log.close()
                    del procs[w]
                continue
            log.close()
            del procs[w]
            res = read_json(os.path.join(outdir, "w%d.json" % w))
            # the race detector exits with 66 when it reported races; the reports are read from its log
            if rc in (0, 66) and res and res.get("done"):
                continue
            # exit status 3: the worker recorded its finding and asks for a fresh process (no fault)
            if rc == 3 and res and restarts[w] < 200 and only is None:
                restarts[w] += 1
                start(w, int(res.get("next_case", 0)))
                continue
            # process fault: attribute to the journalled case, resume after it
            case = 0
            try:
                case = int(open(os.path.join(outdir, "w%d.journal" % w)).read().split()[0])
            except Exception:
                pass
            tail = tail_of(os.path.join(outdir, "w%d.log" % w))
            faults.append(dict(worker=w, case=case, rc=rc, log=tail))
            restarts[w] += 1
            if restarts[w] <= 20 and only is None:
                # move the log aside so the next fault has its own tail
                try:
                    os.rename(os.path.join(outdir, "w%d.log" % w), os.path.join(outdir, "w%d.fault%d.log" % (w, restarts[w])))
                except Exception:
                    pass
                start(w, case + workers)
            else:
                crashes.append(w)
    return workers, faults, timed_out


def read_json(p):
    try:
        with open(p) as fh:
            return json.load(fh)
    except Exception:
        return None


def tail_of(p, n=16000):
    """the part of a worker log that matters: from the first panic / fatal error line on (else the tail)"""
    try:
        with open(p, "rb") as fh:
            data = fh.read(64 << 20).decode("utf-8", "replace")
    except Exception:
        return ""
    m = re.search(r"^(panic: |fatal error: )", data, re.M)
    if m:
        return data[m.start():m.start() + n]
    return data[-n:]


def fault_sig(text):
    """signature of a process-fatal event from the child's stderr"""
    head = ""
    for line in text.split("\n"):
        if line.startswith("panic: ") or line.startswith("fatal error: "):
            head = line.strip()
            break
    head = re.sub(r"\d+", "N", head)
    head = re.sub(r"0xN[0-9a-f]*", "0xN", head)
    frame = ""
    inner = ""
    seen_head = False
    for line in text.split("\n"):
        if line.startswith("panic: ") or line.startswith("fatal error: "):
            seen_head = True
            continue
        if not seen_head:
            continue
        l = line.strip()
        if not l or l.startswith("/") or l.startswith("goroutine ") or l.startswith("[") or l.startswith("created by"):
            if frame and l.startswith("goroutine "):
                break
            continue
        l = l[:l.rfind("(")] if "(" in l else l
        if l.startswith("runtime") or l.startswith("panic") or l.startswith("internal/") or l.startswith("sync") or l.startswith("syscall"):
            continue
        if "internal/verif" in l:
            continue
        if not inner:
            inner = l
        if "free5gc/go-upf/" in l:
            frame = l
            break
    short = lambda s: s.replace("github.com/free5gc/go-upf/", "").replace("github.com/", "")
    if not head:
        head = "exit"
    if inner == frame:
        return "procfault[%s]@%s" % (head, short(frame))
    return "procfault[%s]@%s<-%s" % (head, short(inner), short(frame))


RACE_SKIP = ("runtime.", "sync.", "sync/atomic.", "internal/", "syscall.", "time.", "net.", "os.", "reflect.", "fmt.",
             "strings.", "bytes.", "encoding/", "sort.", "io.", "bufio.", "math/", "errors.", "context.", "testing.")


def parse_races(outdir):
    """returns list of (sig, verdict, text); verdict in upf|third|harness"""
    out = {}
    for f in glob.glob(os.path.join(outdir, "race-w*")):
        txt = open(f, errors="replace").read()
        for block in txt.split("=================="):
            if "WARNING: DATA RACE" not in block:
                continue
            # the two access stacks: first two paragraphs that start with Read/Write/Previous
            stacks = re.split(r"\n\n", block.strip())
            acc = []
            for st in stacks:
                ls = [x for x in st.split("\n") if x.strip()]
                if not ls:
                    continue
                h = ls[0].strip()
                if re.match(r"(WARNING: DATA RACE\n)?(Read|Write|Previous read|Previous write|Atomic|Previous atomic)", h) or \
                        (h.startswith("WARNING") and len(ls) > 1 and re.match(r"\s*(Read|Write)", ls[1])):
                    fr = [x.strip() for x in ls if re.match(r"^  \S", x) and x.rstrip().endswith("()")]
                    fr = [x[:-2] for x in fr]
                    inner = ""
                    for x in fr:
                        if x.startswith(RACE_SKIP):
                            continue
                        inner = x
                        break
                    acc.append((inner, fr))
            if len(acc) < 2:
                continue
            a, b = acc[0][0], acc[1][0]

            def cls(x):
                if "internal/verif" in x:
                    return "harness"
                if "github.com/free5gc/go-upf/" in x:
                    return "upf"
                return "third"
            ca, cb = cls(a), cls(b)
            if "upf" in (ca, cb):
                verdict = "upf"
            elif "harness" in (ca, cb):
                verdict = "harness"
            else:
                verdict = "third"
            short = lambda s: re.sub(r"\.func\d+(\.\d+)*$", ".func", s.replace("github.com/free5gc/go-upf/", "").replace("github.com/", ""))
            pair = sorted([short(a), short(b)])
            sig = "race:%s|%s" % (pair[0], pair[1])
            if sig not in out:
                out[sig] = (sig, verdict, block.strip()[:6000])
    return list(out.values())


def main():
    argv = sys.argv[1:]
    if not argv:
        print(__doc__)
        return 2
    if argv[0] == "--setup":
        ok = True
        for fl in ("F", "R"):
            t0 = time.time()
            b = build(fl)
            print("setup: build %s -> %s (%.1fs)" % (fl, b, time.time() - t0))
            ok = ok and b is not None
        return 0 if ok else 2
    cid = argv[0].upper()
    if cid not in CHECKS:
        sys.stderr.write("unknown check %s\n" % cid)
        return 2
    tier = os.environ.get("VERIF_TIER") or "quick"
    replay = None
    rest = argv[1:]
    i = 0
    while i < len(rest):
        if rest[i] in ("quick", "thorough"):
            tier = rest[i]
        elif rest[i] == "--replay":
            replay = rest[i + 1]
            i += 1
        i += 1
    cfg = CHECKS[cid]
    global SEED
    only = None
    if replay:
        rp = read_json(replay)
        if not rp:
            sys.stderr.write("cannot read replay file\n")
            return 2
        SEED = int(rp["seed"])
        tier = rp["tier"]
        only = int(rp["case_index"])
    t0 = time.time()
    binpath = build(cfg["flavour"])
    if binpath is None:
        print("INCONCLUSIVE property=%s reason=build-failed" % cid)
        return 2
    outdir = os.path.join(bdir(), "run-%s-%s-%d" % (cid, tier, os.getpid()))
    shutil.rmtree(outdir, ignore_errors=True)
    os.makedirs(outdir)
    os.makedirs(os.path.join(VERIF, "out", cid), exist_ok=True)
    workers, faults, timed_out = run_workers(cid, tier, binpath, cfg, outdir, only)

    # merge
    merged = dict(evaluations=0, sigs=set(), distinct_more=0, samples=[], counters={}, violations=[], inconclusive=[],
                  assumptions=[], rule="", exhaustive=True, complete=True)
    for w in range(workers):
        r = read_json(os.path.join(outdir, "w%d.json" % w))
        if not r:
            merged["complete"] = False
            continue
        if not r.get("done"):
            merged["complete"] = False
        merged["evaluations"] += r.get("evaluations", 0)
        merged["sigs"].update((r.get("sigs") or {}).keys())
        merged["distinct_more"] += r.get("distinct_more", 0)
        for s in (r.get("samples") or []):
            if len(merged["samples"]) < 5 and s not in merged["samples"]:
                merged["samples"].append(s)
        for k, v in (r.get("counters") or {}).items():
            if k.startswith("max_"):
                merged["counters"][k] = max(merged["counters"].get(k, 0), v)
            else:
                merged["counters"][k] = merged["counters"].get(k, 0) + v
        merged["violations"] += r.get("violations") or []
        merged["inconclusive"] += r.get("inconclusive") or []
        for a in (r.get("assumptions") or []):
            if a not in merged["assumptions"]:
                merged["assumptions"].append(a)
        merged["rule"] = r.get("rule") or merged["rule"]
        merged["exhaustive"] = merged["exhaustive"] and bool(r.get("exhaustive"))

    # process faults are violations of the property under test (signature from the dump)
    for f in faults:
        sig = fault_sig(f["log"])
        rp = os.path.join(VERIF, "out", cid, "%s-seed%d-case%d-procfault.json" % (tier, SEED, f["case"]))
        with open(rp, "w") as fh:
            json.dump(dict(property=cid, tier=tier, seed=SEED, case_index=f["case"], signature=sig,
                           desc="process-fatal event (exit %s) while executing this case" % f["rc"],
                           witness=f["log"][-8000:]), fh, indent=1)
        merged["violations"].append(dict(sig=sig, desc="process-fatal event while executing case %d" % f["case"],
                                         case=f["case"], replay=rp))
        merged["counters"]["process_faults"] = merged["counters"].get("process_faults", 0) + 1

    # race detector reports
    harness_races = []
    if cfg["flavour"] == "R":
        races = parse_races(outdir)
        merged["counters"]["race_reports_distinct"] = len(races)
        third = []
        for sig, verdict, text in races:
            if verdict == "upf":
                rp = os.path.join(VERIF, "out", cid, "%s-seed%d-%s.json" % (tier, SEED, hashlib.sha1(sig.encode()).hexdigest()[:10]))
                with open(rp, "w") as fh:
                    json.dump(dict(property=cid, tier=tier, seed=SEED, case_index=0, signature=sig,
                                   desc="data race reported by the Go race detector", witness=text), fh, indent=1)
                merged["violations"].append(dict(sig=sig, desc="data race", case=0, replay=rp))
            elif verdict == "harness":
                harness_races.append(sig)
            else:
                third.append(sig)
        merged["third_party_races"] = third

    known = load_known()
    unlisted, hit = [], {}
    for v in merged["violations"]:
        k = None
        for (pid, ksig, text) in known:
            if pid == cid and sig_matches(ksig, v["sig"]):
                k = (ksig, text)
                break
        if k:
            hit.setdefault(k[0], [k[1], 0])
            hit[k[0]][1] += 1
        else:
            unlisted.append(v)

    distinct = len(merged["sigs"]) + merged["distinct_more"]
    wall = time.time() - t0
    inconclusive_reasons = []
    if timed_out:
        inconclusive_reasons.append("time-limit")
    if not merged["complete"]:
        inconclusive_reasons.append("worker-incomplete")
    if harness_races:
        inconclusive_reasons.append("harness-race:" + ",".join(harness_races[:3]))
    if only is None and (merged["evaluations"] < cfg["floor"] or distinct < 2):
        inconclusive_reasons.append("observed-too-little(evals=%d,distinct=%d)" % (merged["evaluations"], distinct))
    if only is None and merged["complete"] and not timed_out:
        idle = [k for k in REQUIRED.get(cid, []) if int(merged["counters"].get(k, 0)) <= 0]
        if idle:
            inconclusive_reasons.append("monitor-never-reached:" + ",".join(idle))
    if merged["inconclusive"]:
        merged["counters"]["inconclusive_cases"] = len(merged["inconclusive"])
        # individual inconclusive cases only make the run inconclusive when they dominate
        if len(merged["inconclusive"]) * 5 > max(1, merged["evaluations"]):
            inconclusive_reasons.append("inconclusive-cases:" + merged["inconclusive"][0])

    cov = dict(evaluations=int(merged["evaluations"]), distinct_nontrivial=int(distinct), rule=merged["rule"],
               samples=merged["samples"] or ["(none)"], exhaustive=bool(merged["exhaustive"] and merged["complete"] and only is None))
    cov.update({k: int(v) for k, v in sorted(merged["counters"].items())})
    cov["known_findings_hit"] = {k: v[1] for k, v in hit.items()}
    cov["inconclusive_notes"] = merged["inconclusive"][:5]
    if "third_party_races" in merged:
        cov["third_party_races"] = merged["third_party_races"]
    cov["workers"] = workers
    ev = dict(property_id=cid, tier=tier, seed=SEED, level=cfg["level"], coverage=cov,
              assumptions=merged["assumptions"], wall_s=round(wall, 2), violations=len(unlisted))
    if only is None:
        # evidence/ describes the tree the checks are registered for (/repo); a run against another tree
        # (VERIF_REPO: mutants, seeded and neutral changes) leaves its evidence next to its build output
        evdir = os.path.join(VERIF, "evidence") if os.path.abspath(REPO) == "/repo" else os.path.join(bdir(), "evidence")
        os.makedirs(evdir, exist_ok=True)
        with open(os.path.join(evdir, cid + ".json"), "w") as fh:
            json.dump(ev, fh, indent=1, sort_keys=False)
            fh.write("\n")

    for ksig, (text, n) in hit.items():
        print("KNOWN-FINDING: property=%s %s [sig=%s, seen %d times]" % (cid, text, ksig, n))
    seen = set()
    for v in unlisted:
        if v["sig"] in seen:
            continue
        seen.add(v["sig"])
        print("VIOLATION property=%s replay=%s sig=%s :: %s" % (cid, v.get("replay") or "-", v["sig"], v["desc"][:300]))
    print("%s %s seed=%d: evaluations=%d distinct_nontrivial=%d violations=%d known=%d wall=%.1fs" % (
        cid, tier, SEED, merged["evaluations"], distinct, len(unlisted), sum(v[1] for v in hit.values()), wall))
    if os.environ.get("VERIF_KEEP") != "1":
        shutil.rmtree(outdir, ignore_errors=True)
    if unlisted:
        return 1
    if inconclusive_reasons:
        print("INCONCLUSIVE property=%s reason=%s" % (cid, ";".join(inconclusive_reasons)))
        return 2
    return 0


if __name__ == "__main__":
    sys.exit(main())
